"""Generic three-stage pipeline: TLC model check + scenario emission, replay into ropt,
TLC trace validation; known findings, evidence, VIOLATION lines."""
from __future__ import annotations

import hashlib
import json
import math
import os
import sys
import time
import traceback
from concurrent.futures import ProcessPoolExecutor
from dataclasses import dataclass, field
from fractions import Fraction
from pathlib import Path
from typing import Any, Callable

from . import tlc
from .tlc import MachineryError, VERIF

INT_MAX = 2**31 - 1


# ----------------------------------------------------------------------------- numbers
def num(v: Any, *, exact: bool = False, tol: float = 1e-7) -> dict:
    """Project a float reported by the code onto the tagged exact encoding of spec/Util.tla."""
    if v is None:
        return {"k": "none", "n": 0, "d": 1, "close": False, "zero": False, "neg": False}
    v = float(v)
    if math.isnan(v):
        return {"k": "nan", "n": 0, "d": 1, "close": False, "zero": False, "neg": False}
    if math.isinf(v):
        return {"k": "inf", "n": 1 if v > 0 else -1, "d": 1, "close": True, "zero": False, "neg": v < 0}
    fr = Fraction(v).limit_denominator(100000)
    if exact:
        close = Fraction(v) == fr
    else:
        close = abs(v - float(fr)) <= tol * max(1.0, abs(v))
    n, d = fr.numerator, fr.denominator
    if abs(n) > INT_MAX // 4096:
        n, d, close = (INT_MAX // 4096) * (1 if n > 0 else -1), 1, False
    return {"k": "q", "n": n, "d": d, "close": bool(close), "zero": v == 0.0, "neg": v < 0}


def nums(a: Any, **kw: Any) -> Any:
    """Project an array (nested lists) of floats; a missing array becomes []."""
    if a is None:
        return []

    def rec(x):
        if hasattr(x, "tolist"):
            x = x.tolist()
        if isinstance(x, (list, tuple)):
            return [rec(y) for y in x]
        return num(x, **kw)
    return rec(a)


# ----------------------------------------------------------------------------- findings
def load_findings(prop: str) -> list[dict]:
    path = VERIF / "known_findings.json"
    if not path.exists():
        return []
    data = json.loads(path.read_text())
    return [f for f in data.get("open", []) if f["property"] == prop]


def match_finding(findings: list[dict], clause: str, features: dict) -> dict | None:
    for f in findings:
        if "clause_prefix" in f:
            if not clause.startswith(f["clause_prefix"]):
                continue
        elif f["clause"] != clause:
            continue
        if all(features.get(k) == v for k, v in f.get("signature", {}).items()):
            return f
    return None


# ----------------------------------------------------------------------------- data
@dataclass
class Case:
    scenario: dict                      # what is replayed (from TLC or from a random driver)
    trace: list[dict] = field(default_factory=list)    # events recorded from the code
    features: dict = field(default_factory=dict)       # nontrivial, key, finding-signature features
    origin: str = "tlc"                 # tlc | random | recorded
    error: str | None = None            # driver machinery error


@dataclass
class PropertyCheck:
    prop: str
    trace_module: str
    drive: Callable[[dict], tuple[list[dict], dict]]       # scenario -> (trace, features)
    model_runs: Callable[[str], list[dict]]                # tier -> [{module, cfg?, constants?, emit?:bool, workers?}]
    extra_scenarios: Callable[[str, int], list[dict]] | None = None
    rule: str = ""
    assumptions: list[str] = field(default_factory=list)
    exhaustive_claim: bool = True
    pool: int = 16
    trace_chunk: int = 3000
    post: Callable[[list[Case], list[dict]], list[tuple[Case, str]]] | None = None
    # whole-run validation against the composed monitor spec/Ropt.tla: only rejections whose clause belongs to this
    # property are reported here (a rejection with another property's clause is reported by that property's check)
    whole_run_clauses: tuple = ()
    # further protocol specifications checked alongside (own MC instance, driver and trace validator); a rejection is
    # reported here only when its clause starts with one of the given prefixes:  ((driver module, (prefix, ...)[, size]), ...)
    # (size "medium": the thorough tier uses a smaller instance - the full one runs in the check that owns most clauses)
    attached: tuple = ()


def _drive_one(args):
    prop_mod, scenario = args
    import importlib
    mod = importlib.import_module(prop_mod)
    import warnings
    warnings.simplefilter("ignore")
    try:
        trace, features = mod.drive(scenario)
        return trace, features, None
    except Exception:  # noqa: BLE001 - reported as machinery failure
        return [], {}, traceback.format_exc()


def _hash(obj: Any) -> str:
    return hashlib.sha256(json.dumps(obj, sort_keys=True).encode()).hexdigest()[:16]


def run(check: PropertyCheck, driver_module: str, argv: list[str]) -> int:
    import argparse
    ap = argparse.ArgumentParser(prog=f"rv.check {check.prop}")
    ap.add_argument("--tier", default=os.environ.get("VERIF_TIER", "quick"), choices=["quick", "thorough"])
    ap.add_argument("--replay", default=None)
    ap.add_argument("--limit", type=int, default=None, help="debug: cap number of scenarios")
    args = ap.parse_args(argv)
    seed = int(os.environ.get("VERIF_SEED", "0") or 0)
    t0 = time.time()
    try:
        if args.replay:
            return _replay(check, driver_module, args.replay)
        return _run(check, driver_module, args.tier, seed, t0, args.limit)
    except MachineryError as exc:
        print(f"MACHINERY-FAILURE property={check.prop}: {exc}", file=sys.stderr)
        return 2


def _replay(check: PropertyCheck, driver_module: str, path: str) -> int:
    data = json.loads(Path(path).read_text())
    whole = "whole_run" in data["scenario"]
    att = data["scenario"].get("attached") if isinstance(data["scenario"], dict) else None
    module = "Ropt" if whole else check.trace_module
    if att:
        import importlib
        driver_module, module = att, importlib.import_module(att).ATTACH["trace_module"]
    trace, features, err = _drive_one(("rv.drivers.ropt" if whole else driver_module, data["scenario"]))
    if err:
        raise MachineryError(err)
    verdicts, _ = tlc.validate_traces(module, [trace])
    v = verdicts[0]
    print(json.dumps({"scenario": data["scenario"], "trace": trace, "verdict": v}, indent=1)[:20000])
    if v["verdict"] == "REJECT":
        print(f"VIOLATION property={check.prop} replay={path}")
        return 1
    print("ACCEPT")
    return 0


def _warm(_):
    time.sleep(0.3)
    return os.getpid()


def _early_pool(n: int) -> ProcessPoolExecutor:
    """The replay workers are forked NOW, while this process is small: forked after the scenarios are loaded, each of them
    slowly turns into a private copy of the whole scenario list (reference counts touch every page)."""
    pool = ProcessPoolExecutor(max_workers=n)
    for _ in range(3):
        if len(set(pool.map(_warm, range(n * 2)))) >= n:
            break
    return pool


def _run(check: PropertyCheck, driver_module: str, tier: str, seed: int, t0: float, limit: int | None) -> int:
    prop = check.prop
    findings = load_findings(prop)
    early = _early_pool(check.pool) if check.pool > 1 else None
    # ---- stage 1: model checking + scenario emission
    states = transitions = 0
    scenarios: list[tuple[dict, str]] = []
    mc_info = []
    for spec in check.model_runs(tier):
        if spec.get("tlaps"):            # unbounded proofs (TLAPS) complementing the bounded instances
            mc_info.append({"tlaps": tlc.run_tlapm(spec["tlaps"])})
            continue
        res = tlc.run_tlc(spec["module"], spec.get("cfg"), workers=spec.get("workers", 1),
                          constants=spec.get("constants"), coverage=spec.get("coverage", False),
                          timeout=spec.get("timeout", 3600), heap=spec.get("heap", "3g"))
        if spec.get("expect_violation"):
            if res.violated != spec["expect_violation"]:
                raise MachineryError(f"as-is switch of {spec['module']}: expected TLC to find a violation of "
                                     f"{spec['expect_violation']}, got {res.violated}")
            mc_info.append({"module": spec["module"], "constants": spec.get("constants", {}), "as_is_counterexample": res.violated,
                            "states": res.distinct, "wall_s": round(res.wall_s, 2)})
            continue
        if res.violated:
            raise MachineryError(f"specification {spec['module']} violates its own invariant {res.violated} "
                                 f"(the implementation-shaped part does not refine the declarative part):\n"
                                 + "\n".join(res.stdout.splitlines()[-40:]))
        states += res.distinct
        transitions += res.generated
        mc_info.append({"module": spec["module"], "constants": spec.get("constants", {}),
                        "states": res.distinct, "generated": res.generated, "emitted": len(res.emitted),
                        "wall_s": round(res.wall_s, 2)})
        if spec.get("expect_emitted", True) and not res.emitted and spec.get("emit", True):
            raise MachineryError(f"{spec['module']} emitted no scenario (vacuous instance)")
        if len(res.emitted) < spec.get("min_emitted", 0):      # guards against an instance that shrank by accident
            raise MachineryError(f"{spec['module']} emitted {len(res.emitted)} scenarios, at least {spec['min_emitted']} expected")
        # (a very large instance may be replayed in part: every stride-th behaviour, the offset following VERIF_SEED; the
        #  instance itself is model-checked completely)
        stride = max(1, int(spec.get("stride", 1)))
        scenarios += [(s, "tlc") for i, s in enumerate(res.emitted) if (i + seed) % stride == 0]
        if stride > 1:
            mc_info[-1]["replayed_every"] = stride
    n_tlc = len(scenarios)
    t_mc = time.time() - t0
    if check.extra_scenarios is not None:
        scenarios += [(s, "random") for s in check.extra_scenarios(tier, seed)]
    if limit:
        scenarios = scenarios[:limit]
    # ---- stages 2 and 3, in batches (bounded memory): replay into the implementation, validate by TLC
    BATCH = int(os.environ.get("RV_BATCH", "40000"))
    t_drive = t_val = 0.0
    violations: list[tuple[Case, dict]] = []
    known: dict[str, int] = {}
    nontrivial_keys: set = set()
    samples: list = []
    n_cases = events = 0
    pool = early if len(scenarios) > 8 else None
    try:
        for start in range(0, len(scenarios), BATCH):
            part = scenarios[start:start + BATCH]
            t1 = time.time()
            work = [(driver_module, s) for s, _ in part]
            if pool is not None:
                results = list(pool.map(_drive_one, work, chunksize=max(1, min(64, len(work) // (check.pool * 4) or 1))))
            else:
                results = [_drive_one(w) for w in work]
            cases: list[Case] = []
            for (s, origin), (trace, features, err) in zip(part, results):
                if err:
                    raise MachineryError(f"driver failure on scenario {json.dumps(s)[:500]}:\n{err}")
                cases.append(Case(scenario=s, trace=trace, features=features, origin=origin))
            t2 = time.time()
            t_drive += t2 - t1
            verdicts, tres = tlc.validate_traces(check.trace_module, [c.trace for c in cases], chunk=check.trace_chunk)
            t_val += time.time() - t2
            if tres:
                states += tres.distinct
                transitions += tres.generated
            for c, v in zip(cases, verdicts):
                if v["verdict"] == "REJECT":
                    f = match_finding(findings, v["clause"], c.features)
                    if f is not None:
                        known[f["id"]] = known.get(f["id"], 0) + 1
                    elif len(violations) < 200000:
                        violations.append((c, v))
                if c.features.get("nontrivial"):
                    nontrivial_keys.add(_hash(c.features.get("key", c.scenario)))
            n_cases += len(cases)
            events += sum(len(c.trace) for c in cases)
            if len(samples) < 3 and cases:
                c = cases[len(cases) // 2]
                samples.append({"origin": c.origin, "scenario": c.scenario, "trace": c.trace[:4]})
    finally:
        if early is not None and not check.attached:
            early.shutdown()
    # ---- composed whole-run validation (spec/Ropt.tla), restricted to this property's clauses
    whole = {"runs": 0, "events": 0, "foreign_rejections": 0}
    if check.whole_run_clauses:
        from .drivers import ropt as ropt_driver
        wsc = ropt_driver.scenarios(tier, seed)
        wres = [_drive_one(("rv.drivers.ropt", w)) for w in wsc]
        for w, (trace, features, err) in zip(wsc, wres):
            if err:
                raise MachineryError(f"whole-run driver failure on {w}:\n{err}")
        wverd, wt = tlc.validate_traces("Ropt", [r[0] for r in wres], chunk=8)
        if wt:
            states += wt.distinct
            transitions += wt.generated
        for w, (trace, features, _), v in zip(wsc, wres, wverd):
            whole["runs"] += 1
            whole["events"] += len(trace)
            if v["verdict"] == "REJECT":
                if v["clause"] in check.whole_run_clauses:
                    violations.append((Case(scenario={"whole_run": features.get("name"), **w}, trace=trace, features=features,
                                            origin="recorded"), v))
                else:
                    whole["foreign_rejections"] += 1
                    print(f"NOTE: whole-run monitor Ropt.tla rejected run {features.get('name')} at event {v['l']} with clause "
                          f"{v['clause']} (not a clause of {prop}; reported by the owning property's check, if any)")
    # ---- attached protocol specifications
    attached_info = []
    for att_mod, prefixes, *att_opts in check.attached:
        import importlib
        att = importlib.import_module(att_mod).ATTACH
        att_size = att_opts[0] if att_opts else "full"
        info = {"specification": att["spec"], "trace_module": att["trace_module"], "model_runs": [], "replayed": 0, "events": 0,
                "foreign_rejections": 0}
        asc = []
        for spec in att["model_runs"](tier, att_size):
            res = tlc.run_tlc(spec["module"], spec.get("cfg"), workers=spec.get("workers", 1), constants=spec.get("constants"),
                              timeout=spec.get("timeout", 3600), heap=spec.get("heap", "3g"))
            if spec.get("expect_violation"):
                if res.violated != spec["expect_violation"]:
                    raise MachineryError(f"{spec['module']}: expected TLC to find a violation of {spec['expect_violation']}, got {res.violated}")
                info["model_runs"].append({"module": spec["module"], "constants": spec.get("constants", {}),
                                           "as_is_counterexample": res.violated, "states": res.distinct})
                continue
            if res.violated:
                raise MachineryError(f"specification {spec['module']} violates its own invariant {res.violated}:\n"
                                     + "\n".join(res.stdout.splitlines()[-40:]))
            states += res.distinct
            transitions += res.generated
            info["model_runs"].append({"module": spec["module"], "constants": spec.get("constants", {}), "states": res.distinct,
                                       "emitted": len(res.emitted), "wall_s": round(res.wall_s, 2)})
            stride = max(1, int(spec.get("stride", 1)))
            asc += [s for i, s in enumerate(res.emitted) if (i + seed) % stride == 0]
        asc += att["extra"](tier, seed) if att.get("extra") else []
        if not asc:
            raise MachineryError(f"attached specification {att['spec']}: no scenario to replay")
        apool = early if early is not None else ProcessPoolExecutor(max_workers=check.pool)
        ares = list(apool.map(_drive_one, [(att_mod, s) for s in asc], chunksize=64))
        for s, (trace, features, err) in zip(asc, ares):
            if err:
                raise MachineryError(f"driver failure of {att_mod} on {json.dumps(s)[:400]}:\n{err}")
        averd, at = tlc.validate_traces(att["trace_module"], [r[0] for r in ares], chunk=att.get("chunk", 2000))
        if at:
            states += at.distinct
            transitions += at.generated
        for s, (trace, features, _), v in zip(asc, ares, averd):
            info["replayed"] += 1
            info["events"] += len(trace)
            if v["verdict"] == "REJECT":
                if any(v["clause"].startswith(px) for px in prefixes):
                    violations.append((Case(scenario={"attached": att_mod, **s}, trace=trace, features=features, origin="tlc"), v))
                else:
                    info["foreign_rejections"] += 1
                    if info["foreign_rejections"] <= 3:
                        print(f"NOTE: {att['trace_module']} rejected a run at event {v['l']} with clause {v['clause']} "
                              f"(not a clause of {prop}; reported by the owning property's check)")
        attached_info.append(info)
    if early is not None and check.attached:
        early.shutdown()
    # ---- report
    rc = 0
    for f in findings:
        if f["id"] in known:
            print(f"KNOWN-FINDING: property={prop} {f['what']} [{f['id']}: {known[f['id']]} scenarios]")
    out_root = Path(os.environ.get("RV_OUT", str(VERIF)))      # seeded-change runs redirect evidence/replay output
    replay_dir = out_root / "replay" / prop
    seen_clause: dict[str, int] = {}
    for c, v in violations:
        seen_clause[v["clause"]] = seen_clause.get(v["clause"], 0) + 1
        if seen_clause[v["clause"]] > 3:
            continue
        replay_dir.mkdir(parents=True, exist_ok=True)
        path = replay_dir / f"{_hash(c.scenario)}.json"
        path.write_text(json.dumps({"property": prop, "clause": v["clause"], "event_index": v["l"],
                                    "scenario": c.scenario, "trace": c.trace, "features": c.features}, indent=1))
        print(f"VIOLATION property={prop} replay={path}  clause={v['clause']} event={v['l']}")
        rc = 1
    if violations:
        print(f"violations by clause: {seen_clause}")
    # ---- evidence
    evidence = {
        "property_id": prop, "tier": tier, "seed": seed, "level": "model_checking",
        "coverage": {
            "states": states, "transitions": transitions,
            "traces_validated_against_impl": n_cases,
            "samples": samples,
            "evaluations": n_cases, "distinct_nontrivial": len(nontrivial_keys),
            "rule": check.rule,
            "exhaustive": bool(check.exhaustive_claim and n_tlc > 0 and not limit and not any(m.get("replayed_every") for m in mc_info)),
            "scenarios_from_tlc": n_tlc, "scenarios_random": n_cases - n_tlc,
            "trace_events": events, "model_runs": mc_info,
            "rejected_known": known, "rejected_new": len(violations), "whole_runs_validated_against_Ropt_tla": whole,
            "attached_specifications": attached_info,
            "stage_wall_s": {"model_check": round(t_mc, 1), "replay": round(t_drive, 1), "trace_validation": round(t_val, 1)},
        },
        "assumptions": check.assumptions,
        "wall_s": round(time.time() - t0, 2),
        "violations": len(violations),
    }
    (out_root / "evidence").mkdir(parents=True, exist_ok=True)
    (out_root / "evidence" / f"{prop}.json").write_text(json.dumps(evidence, indent=1))
    print(f"{prop} {tier}: {states} spec states, {n_cases} traces validated ({events} events), "
          f"{len(nontrivial_keys)} distinct non-trivial, {len(violations)} violations, "
          f"{sum(known.values())} known-finding rejections, {evidence['wall_s']} s "
          f"(mc {t_mc:.0f} / replay {t_drive:.0f} / validate {t_val:.0f})")
    return rc
