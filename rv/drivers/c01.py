"""C01 - ensemble function values are the normalised weighted estimate over realizations."""
from __future__ import annotations

import numpy as np

from ropt.config.enopt import EnOptConfig
from ropt.enums import EventType
from ropt.evaluator import EvaluatorResult
from ropt.plan import OptimizerContext, Plan
from ropt.results import FunctionResults

from ..core import PropertyCheck, nums, num
from ..ropt_util import ensemble_evaluator, outcome_of, plugin_manager

INF = float("inf")
EST = {"mean": 0, "std": 1}


def build_config(sc, minsucc=None):
    R = sc["R"]
    first, last = 0, (0 if R == 1 else R - 2)
    # plug-in methods may be given as "method" or as "plugin/method": every second scenario uses the qualified spelling
    q = "default/" if (sum(sc["rw"]) + R) % 2 else ""
    cfg = {
        "variables": {"initial_values": [0.0, 0.0]},
        "realizations": {"weights": [float(w) for w in sc["rw"]],
                         "realization_min_success": sc["minsucc"] if minsucc is None else minsucc},
        "objectives": {"weights": [float(w) for w in sc["ow"]], "realization_filters": sc["flt"][:2],
                       "function_estimators": [EST[e] for e in sc["est"][:2]]},
        "nonlinear_constraints": {"lower_bounds": [-INF], "upper_bounds": [0.0], "realization_filters": sc["flt"][2:],
                                  "function_estimators": [EST[e] for e in sc["est"][2:]]},
        "function_estimators": [{"method": "mean"}, {"method": "stddev"}],
        "realization_filters": [
            {"method": "sort-objective", "options": {"sort": [0], "first": first, "last": last}},
            {"method": "cvar-objective", "options": {"sort": [1], "percentile": 0.5}},
            {"method": "cvar-constraint", "options": {"sort": 0, "percentile": 0.5}},
            {"method": "sort-constraint", "options": {"sort": 0, "first": first, "last": last}}],
    }
    for section in ("function_estimators", "realization_filters"):
        for entry in cfg[section]:
            entry["method"] = q + entry["method"]
    # (a filter map that is all "no filter" may as well be left out)
    if list(sc["flt"][:2]) == [-1, -1] and R % 2:
        del cfg["objectives"]["realization_filters"]
    return EnOptConfig.model_validate(cfg)


class BatchEvaluator:
    """Row b of a batch is identified by variables[0] == b; row `target` returns the scenario table,
    the other rows return shifted tables (they must not influence the target's result)."""

    def __init__(self, sc, target):
        cols = np.array(sc["cols"], dtype=np.float64).T           # (R, 3)
        failed = np.array(sc["failed"], dtype=bool)
        cols = cols.copy()
        cols[failed, sc["nancol"] - 1] = np.nan
        self.table, self.target, self.calls = cols, target, 0
        self.rw = sc["rw"]
        self.fail_perturbations_of = None

    def __call__(self, variables, context):
        self.calls += 1
        perts = context.perturbations
        rows = []
        for x, r in zip(variables, context.realizations):
            b = int(round(x[0]))
            t = self.table[r] if b == self.target else np.roll(self.table, b + 1, axis=0)[r] * (b + 2) + 1.0
            rows.append(t)
        rows = np.array(rows)
        if perts is not None and self.fail_perturbations_of is not None:
            # every perturbation of one realization fails: the FUNCTION results of the same call must not notice
            rows[(perts >= 0) & (context.realizations == self.fail_perturbations_of), 0] = np.nan
        # (the values are small integers: every second scenario hands them over in single precision - what is computed from
        #  them is double precision all the same)
        dt = np.float32 if (sum(self.rw) + len(self.rw)) % 2 else np.float64
        return EvaluatorResult(objectives=rows[:, :2].astype(dt), constraints=rows[:, 2:].astype(dt))


def observe(sc, r: FunctionResults | None, outcome, layout):
    ev = {"ev": "Eval", "layout": layout, **{k: sc[k] for k in ("R", "rw", "ow", "est", "flt", "cols", "failed", "minsucc")},
          "outcome": outcome, "failedObs": [False] * sc["R"], "obj": nums([None, None]), "con": nums([None]),
          "wobj": num(None), "orows": [], "crows": [], "stdneg": [False] * 3}
    if r is None:
        return ev
    ev["failedObs"] = [bool(b) for b in r.realizations.failed_realizations]
    if r.realizations.objective_weights is not None:
        ev["orows"] = nums(r.realizations.objective_weights)
    if r.realizations.constraint_weights is not None:
        ev["crows"] = nums(r.realizations.constraint_weights)
    if r.functions is None:
        ev["outcome"] = "nofunctions"
        return ev
    vals = list(r.functions.objectives) + list(r.functions.constraints)
    if all(np.isnan(v) for v in vals):
        ev["outcome"] = "allnan"
        return ev
    sq = [v * v if sc["est"][i] == "std" else v for i, v in enumerate(vals)]
    ev["stdneg"] = [bool(sc["est"][i] == "std" and v < 0) for i, v in enumerate(vals)]
    ev["obj"], ev["con"] = nums(sq[:2], tol=1e-9), nums(sq[2:], tol=1e-9)
    ev["wobj"] = num(r.functions.weighted_objective, tol=1e-9)
    return ev


def single_objective(sc, shift=0.0, twin=False):
    R = sc["R"]
    cfg = {"variables": {"initial_values": [0.0, 0.0]},
           "realizations": {"weights": [float(w) for w in sc["rw"]], "realization_min_success": sc["minsucc"]},
           "objectives": {"weights": [float(sc["ow"][0]) + 3.0], "realization_filters": [sc["flt"][0]],
                          "function_estimators": [EST[sc["est"][0]]]},
           "function_estimators": [{"method": "mean"}, {"method": "stddev"}],
           "realization_filters": [{"method": "sort-objective", "options": {"sort": [0], "first": 0, "last": 0 if R == 1 else R - 2}}]}
    if twin:
        # two objectives that return the SAME column, with weights that sum to one only nearly (1 + 2^-17): the weights are
        # normalised all the same, so the weighted objective is the common objective value
        cfg["objectives"] = {"weights": [0.5, 0.5 + 2.0 ** -17], "realization_filters": [sc["flt"][0]] * 2,
                             "function_estimators": [EST[sc["est"][0]]] * 2}
    column = np.array(sc["cols"][0], dtype=np.float64) + shift
    column[np.array(sc["failed"], dtype=bool)] = np.nan

    def evaluator(variables, context):
        return EvaluatorResult(objectives=np.repeat(column[context.realizations][:, None], 2 if twin else 1, axis=1))

    res, outcome = outcome_of(lambda: ensemble_evaluator(EnOptConfig.model_validate(cfg), evaluator).calculate(
        np.array([0.0, 0.0]), compute_functions=True, compute_gradients=False))
    ev = {"ev": "One", "layout": "one", "shift": int(shift), "twin": bool(twin), **{k: sc[k] for k in ("R", "rw", "ow", "est", "flt", "cols", "failed", "minsucc")},
          "outcome": outcome, "failedObs": [False] * R, "obj": nums([None, None]), "con": nums([None]),
          "wobj": num(None), "orows": [], "crows": [], "stdneg": [False] * 3}
    r = res[0] if res else None
    if r is not None and r.functions is None:
        ev["outcome"] = "nofunctions"
    elif r is not None:
        v = float(r.functions.objectives[0])
        if np.isnan(v):
            ev["outcome"] = "allnan"
        else:
            ev["obj"] = nums([v * v if sc["est"][0] == "std" else v, None])
            ev["stdneg"] = [bool(sc["est"][0] == "std" and v < 0), False, False]
            ev["wobj"] = num(float(r.functions.weighted_objective))
    return ev


def drive(sc):
    config = build_config(sc)
    trace = []
    # single vector
    ev = BatchEvaluator(sc, 0)
    res, outcome = outcome_of(lambda: ensemble_evaluator(config, ev).calculate(
        np.array([0.0, 0.0]), compute_functions=True, compute_gradients=False))
    trace.append(observe(sc, res[0] if res else None, outcome, "single"))
    # batch of three vectors, the scenario in row `target`; only when the others cannot abort the call
    if sc.get("expect", "ok") != "toofew":
        target = (sum(sc["rw"]) + sc["R"]) % 3
        ev = BatchEvaluator(sc, target)
        cfg_b = build_config(sc)
        batch = np.array([[0.0, 0.0], [1.0, 0.0], [2.0, 0.0]])
        res, outcome = outcome_of(lambda: ensemble_evaluator(cfg_b, ev).calculate(
            batch, compute_functions=True, compute_gradients=False))
        if outcome == "toofew":
            pass   # another row of the batch legitimately ended the call
        else:
            trace.append(observe(sc, res[target] if res else None, outcome, "batch"))
    # a combined function + gradient evaluation in which all perturbations of one successful realization fail
    if sc.get("expect", "ok") == "ok":
        ev = BatchEvaluator(sc, 0)
        succ = [i for i in range(sc["R"]) if not sc["failed"][i]]
        ev.fail_perturbations_of = succ[-1] if succ else None
        res, outcome = outcome_of(lambda: ensemble_evaluator(build_config(sc), ev).calculate(
            np.array([0.0, 0.0]), compute_functions=True, compute_gradients=True))
        fr = next((x for x in (res or ()) if isinstance(x, FunctionResults)), None)
        if outcome != "toofew":
            trace.append(observe(sc, fr, outcome, "both"))
    # through a plan: FINISHED_EVALUATION event data of an evaluator step
    if sc.get("expect", "ok") == "ok":
        ev = BatchEvaluator(sc, 0)
        seen = []
        ctx = OptimizerContext(evaluator=ev, plugin_manager=plugin_manager())
        ctx.add_observer(EventType.FINISHED_EVALUATION, lambda e: seen.extend(e.data["results"]))
        plan = Plan(ctx)
        step = plan.add_step("evaluator")
        _, outcome = outcome_of(lambda: plan.run_step(step, config=config, variables=[0.0, 0.0]))
        fr = next((x for x in seen if isinstance(x, FunctionResults)), None)
        trace.append(observe(sc, fr, outcome, "plan"))
    # the same ensemble as a problem with its first objective only: one objective with an explicit weight other than one
    if sc.get("expect", "ok") == "ok" and sc["flt"][0] in (-1, 0):
        trace.append(single_objective(sc))
        if sc["est"][0] == "mean":
            trace.append(single_objective(sc, twin=True))
        if sc["est"][0] == "std":
            # a standard deviation does not change when every value is shifted by the same (large, exactly representable) amount
            trace.append(single_objective(sc, shift=float(2 ** 20)))
    failed = sc["failed"]
    succ = [i for i in range(sc["R"]) if not failed[i]]
    feats = {
        "nontrivial": bool(sc.get("expect", "ok") == "ok" and len(succ) >= 2
                           and (len({sc["rw"][i] for i in succ}) > 1 or any(m >= 0 for m in sc["flt"]))),
        "key": f"{sc['R']}|{sc['rw']}|{sc['ow']}|{sc['est']}|{sc['flt']}|{sc['cols']}|{failed}|{sc['nancol']}|{sc['minsucc']}",
        "unfiltered_next_to_filtered": any(m >= 0 for m in sc["flt"]) and any(m < 0 for m in sc["flt"]),
        "expect": sc.get("expect"),
    }
    return trace, feats


def model_runs(tier):
    if tier == "quick":
        return [{"module": "MC_C01"}]
    return [{"module": "MC_C01", "constants": {"RSet": "{1, 2, 3, 4}", "VCSet": "{1, 2}", "WSet": "{1, 2, 3, 4, 5}",
                                               "OSet": "{2, 3}", "EstSet": "{1, 2, 3, 6}"},
             "workers": 1, "heap": "12g", "timeout": 7200},
            {"module": "MC_C01", "constants": {"RSet": "{2, 3}", "VCSet": "{3, 4}", "WSet": "{3, 5}",
                                               "OSet": "{1}", "EstSet": "{4, 5, 7, 8}"}, "workers": 1, "heap": "8g"}]


def extra_scenarios(tier, seed):
    rng = np.random.default_rng(seed)
    out = []
    for _ in range(400 if tier == "quick" else 4000):
        R = int(rng.integers(2, 9))
        rw = [int(x) for x in rng.integers(0, 4, R)]
        if sum(rw) == 0:
            rw[int(rng.integers(R))] = 1
        cols = [[int(v) for v in rng.permutation(np.arange(-R, R + 1))[:R]],
                [int(v) for v in rng.permutation(np.arange(-R, R + 1))[:R]],
                [int(v) for v in rng.integers(-3, 4, R)]]
        failed = [bool(b) for b in rng.random(R) < 0.2]
        out.append({"R": R, "rw": rw, "ow": [int(rng.integers(1, 4)), int(rng.integers(0, 3))],
                    "est": [["mean", "std"][int(rng.integers(2))] for _ in range(3)],
                    "flt": [int(rng.integers(-1, 2)), int(rng.integers(-1, 2)), int(rng.choice([-1, 1]))], "_fix": True,
                    "cols": cols, "failed": failed, "nancol": int(rng.integers(1, 4)),
                    "minsucc": int(rng.choice([0, 1, R])), "expect": "unknown"})
        sc = out[-1]
        sc.pop("_fix", None)
        if sc["ow"][1] == 0:      # a zero objective weight ties every key of the filter ranked on that objective
            sc["flt"] = [(-1 if m == 1 else m) for m in sc["flt"]]
    return out


CHECK = PropertyCheck(
    prop="C01", trace_module="Trace_C01", drive=drive, model_runs=model_runs, extra_scenarios=extra_scenarios,
    rule=("TLC enumerates ensembles (R in 2..3 quick, 1..4 thorough) x realization-weight vectors with zeros x objective weights "
          "x estimator maps x filter-index maps in {-1,0,1}^2 x {-1,1} (sort + CVaR filters) x every failure set x NaN column x "
          "min-success; each is replayed as a single vector, inside a batch of three and through a plan evaluator step. "
          "Non-trivial: functions reported, >=2 successes, and non-uniform weights or a filter in force; distinct by scenario."),
    assumptions=["standard deviations are compared through their squares (variance is rational)",
                 "the weighted objective is compared only when every positively weighted objective uses the mean estimator",
                 "value clauses do not apply when no positively weighted realization succeeds"],
    trace_chunk=2000,
)
