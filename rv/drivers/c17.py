"""C17 - samplers obey the perturbation-sample contract, including QMC point integrity."""
from __future__ import annotations

import warnings

import numpy as np
from numpy.random import default_rng
from scipy.stats import qmc

from ropt.config.enopt import EnOptConfig
from ropt.ensemble_evaluator import EnsembleEvaluator
from ropt.evaluator import EvaluatorResult
from ropt.plugins import PluginManager
from ropt.plugins.sampler.base import Sampler, SamplerPlugin
from ropt.plugins.sampler.scipy import SciPySamplerPlugin

from ..core import PropertyCheck
from ..ropt_util import outcome_of, plugin_manager

ENGINES = {"sobol": qmc.Sobol, "halton": qmc.Halton, "lhs": qmc.LatinHypercube}


def observe(sc, mask, samples, outcome, ref_block, method):
    R, P, V = sc["R"], sc["P"], sc["V"]
    handled = [v for v in range(V) if mask[v]]
    e = {"ev": "Samples", "R": R, "P": P, "V": V, "mask": [bool(b) for b in mask], "shared": bool(sc["shared"]), "method": method,
         "outcome": outcome, "shape": [], "entries": [], "eqreal": [], "ptidx": [], "strat": [], "refvalid": False}
    if samples is None:
        return e
    e["shape"] = list(samples.shape)
    if samples.shape != (R, P, V):
        return e
    e["entries"] = [[[{"zero": bool(samples[r, p, v] == 0.0), "inrange": bool(-1.0 <= samples[r, p, v] <= 1.0)} for v in range(V)]
                     for p in range(P)] for r in range(R)]
    e["eqreal"] = [bool(np.array_equal(samples[r], samples[0])) for r in range(R)]
    RR = 1 if sc["shared"] else R
    N = RR * P
    pts = samples[:RR][..., handled].reshape(N, len(handled)) if handled else np.zeros((N, 0))
    e["strat"] = [[[int(min(N - 1, np.floor((samples[r, p, v] + 1.0) / 2.0 * N))) for v in handled] for p in range(P)] for r in range(R)]
    if ref_block is not None and handled:
        # the reference is only used if it demonstrably is what the sampler drew: same multiset of coordinates
        e["refvalid"] = bool(np.array_equal(np.sort(pts.reshape(-1)), np.sort(ref_block.reshape(-1))))
        idx = []
        for r in range(R):
            row = []
            for p in range(P):
                vec = samples[r, p, handled]
                hit = [i + 1 for i in range(ref_block.shape[0]) if np.array_equal(ref_block[i], vec)]
                row.append(hit[0] if hit else 0)
            idx.append(row)
        e["ptidx"] = idx
    else:
        e["ptidx"] = [[0] * P for _ in range(R)]
    return e


def drive(sc):
    R, P, V, method = sc["R"], sc["P"], sc["V"], sc["method"]
    mask = np.array(sc["mask"], dtype=bool)
    seed = sc.get("seed", 7)
    cfg = {"variables": {"initial_values": [0.0] * V},
           # (a configured weight of exactly zero in every second ensemble: samples are drawn for every realization all the same)
           "realizations": {"weights": [0.0 if (r == 1 and (P + V + int(sc["shared"])) % 2 == 0) else 1.0 for r in range(R)]},
           # (options of the gradient section that are none of a sampler's business: merged realizations in every second
           #  scenario, a success threshold below the number of perturbations in every third)
           "gradient": {"number_of_perturbations": P, "seed": seed, "merge_realizations": bool((R + V) % 2),
                        **({"perturbation_min_success": 1} if P >= 2 and (P + R + V) % 3 == 0 else {})},
           "samplers": [{"method": method, "shared": bool(sc["shared"])}]}
    if sc["two"]:
        cfg["samplers"] = cfg["samplers"] * 2
        cfg["gradient"]["samplers"] = [0 if m else 1 for m in mask]
        masks = [mask, ~mask]
    else:
        if not mask.all():
            cfg["variables"]["mask"] = [bool(b) for b in mask]
        masks = [mask if not mask.all() else None]
    plugin = plugin_manager().get_plugin("sampler", method=method)
    if method in ("norm", "truncnorm", "uniform") and (R + P) % 2 == 0:
        # the sampler entries are DERIVED (model_copy) from a uniform entry that has already been used to build a sampler
        from ropt.config.enopt import SamplerConfig
        parent = SamplerConfig(method="uniform", shared=bool(sc["shared"]))
        with warnings.catch_warnings():
            warnings.simplefilter("ignore")
            plugin.create(EnOptConfig.model_validate(dict(cfg, samplers=[parent] * len(cfg["samplers"]))), 0, masks[0], default_rng(1)).generate_samples()
        cfg["samplers"] = [parent.model_copy(update={"method": method})] * len(cfg["samplers"])
    config = EnOptConfig.model_validate(cfg)
    rng = default_rng(seed)
    trace = []
    with warnings.catch_warnings():
        warnings.simplefilter("ignore")
        # history: a sampler of the same method with range-widening options was used before in this process
        wide = {"uniform": {"loc": -3.0, "scale": 6.0}, "truncnorm": {"a": -4.0, "b": 4.0}, "norm": {"scale": 3.0}}.get(method)
        if wide is not None:
            cfg_w = dict(cfg, samplers=[{"method": method, "options": wide, "shared": bool(sc["shared"])}] * len(cfg["samplers"]))
            plugin.create(EnOptConfig.model_validate(cfg_w), 0, masks[0], default_rng(1)).generate_samples()
        samplers = [plugin.create(config, i, m, rng) for i, m in enumerate(masks)]
        ref_engine = None
        D = int(mask.sum())
        if method in ENGINES and not sc["two"]:
            ref_engine = ENGINES[method](D, seed=default_rng(seed))
        N = (1 if sc["shared"] else R) * P
        for call in range(2):
            for i, s in enumerate(samplers):
                samples, outcome = outcome_of(s.generate_samples)
                m = np.ones(V, dtype=bool) if masks[i] is None else masks[i]
                ref = None
                if i == 0 and ref_engine is not None:
                    ref = qmc.scale(ref_engine.random(N), [-1.0] * D, [1.0] * D)
                trace.append(observe(sc, m, samples, outcome, ref, method))
                if samples is not None and samples.flags.writeable:
                    samples += 3.25        # callers (ropt itself: `samples += other.generate_samples()`) modify the returned array
        trace += pipeline(sc, cfg, mask)
    feats = {"nontrivial": bool((1 if sc["shared"] else R) * P >= 2 and mask.sum() >= 2), "key": str(sc), "method": method,
             "qmc": method in ENGINES}
    return trace, feats


class _SpySampler(Sampler):
    def __init__(self, inner, index, log):
        self._inner, self._index, self._log = inner, index, log

    def generate_samples(self):
        samples = self._inner.generate_samples()
        self._log.append((self._index, np.array(samples, copy=True)))
        return samples


class _SpyPlugin(SamplerPlugin):
    """Prioritised stand-in for the bundled sampler plug-in: records what each sampler created by the evaluator returns."""

    def __init__(self, log):
        self._log, self._real, self._created = log, SciPySamplerPlugin(), 0

    def create(self, enopt_config, sampler_index, mask, rng):
        # samplers are created once each, in the order of the configuration entries: the position in that order is the entry
        # a sampler stands for (the index the library passes along is what it BELIEVES)
        position = self._created
        self._created += 1
        if position >= len(enopt_config.samplers):
            position = sampler_index
        return _SpySampler(self._real.create(enopt_config, sampler_index, mask, rng), position, self._log)

    def is_supported(self, method):
        return self._real.is_supported(method)


def pipeline(sc, cfg, mask):
    """The same samplers as the ensemble evaluator creates and calls them: the highest variable is fixed by
    variables.mask on top of the sampler assignment; every sampler must stay zero outside the free variables assigned to it."""
    V = sc["V"]
    if V < 2:
        return []
    cfg = {k: (dict(v) if isinstance(v, dict) else v) for k, v in cfg.items()}
    free = np.ones(V, dtype=bool); free[V - 1] = False
    cfg["variables"] = {"initial_values": [0.0] * V, "mask": [bool(b) for b in free]}
    assign = np.array([0 if m else 1 for m in mask]) if sc["two"] else np.zeros(V, dtype=int)
    if sc["two"] and sc["P"] % 2 == 0:
        assign = 1 - assign             # the roles swapped: with a full mask the first configured sampler is the unused one
    if sc["two"]:
        cfg["gradient"] = {**cfg["gradient"], "samplers": [int(a) for a in assign]}
    config = EnOptConfig.model_validate(cfg)
    log = []
    pm = PluginManager()
    pm.add_plugin("sampler", "rvspy", _SpyPlugin(log), prioritize=True)

    def evaluator(variables, context):
        return EvaluatorResult(objectives=variables.sum(axis=1, keepdims=True))

    ee = EnsembleEvaluator(config, None, evaluator, pm)
    _, outcome = outcome_of(lambda: ee.calculate(np.zeros(V), compute_functions=True, compute_gradients=True))
    out = []
    from collections import Counter
    if any(n > 1 for n in Counter(index for index, _ in log).values()):
        # one gradient evaluation draws from every sampler in use exactly once (a second draw would be added on top)
        out.append(observe(sc, free, None, "exc:sampler_drawn_from_twice_in_one_evaluation", None, sc["method"]))
    for index, samples in log:
        want = free & (assign == index)
        out.append(observe(sc, want, samples, outcome, None, sc["method"]))
    if outcome != "ok":
        out.append(observe(sc, free, None, outcome, None, sc["method"]))
    return out


def model_runs(tier):
    if tier == "quick":
        return [{"module": "MC_C17", "constants": {"RMax": 3, "PMax": 3}},
                {"module": "MC_C17", "constants": {"RMax": 2, "PMax": 2, "AsIs": "TRUE", "Emit": "FALSE"}, "emit": False, "expect_violation": "InvPoint"}]
    return [{"module": "MC_C17", "constants": {"RMax": 4, "PMax": 5}}]


def extra_scenarios(tier, seed):
    rng = np.random.default_rng(seed)
    out = []
    for _ in range(100 if tier == "quick" else 1500):
        V = int(rng.integers(2, 6)); mask = rng.random(V) < 0.7
        if not mask.any():
            mask[0] = True
        out.append({"R": int(rng.integers(1, 6)), "P": int(rng.integers(1, 9)), "V": V, "mask": [bool(b) for b in mask],
                    "shared": bool(rng.integers(2)), "method": ["norm", "uniform", "truncnorm", "sobol", "halton", "lhs", "default", "scipy/default"][int(rng.integers(8))],
                    "two": bool((~mask).any() and rng.integers(2)), "seed": int(rng.integers(1, 1000))})
    return out


CHECK = PropertyCheck(
    prop="C17", trace_module="Trace_C17", drive=drive, model_runs=model_runs, extra_scenarios=extra_scenarios,
    rule=("TLC enumerates method x R,P<=3 x V<=3 x every non-empty handled-variable mask x shared x single/two samplers and checks the "
          "layout map of SamplerLayout.tla (zeros outside, point integrity, shared identical, distinct points; the as-is transposed "
          "layout violates point integrity); each scenario calls generate_samples() twice on real samplers, and once more through an ensemble evaluator (a recording stand-in plug-in) with a fixed variable on top of the assignment; for QMC methods the "
          "underlying points are re-created from an identically seeded engine. Non-trivial: >=2 points and >=2 handled variables."),
    assumptions=["QMC reference points are used only when their coordinate multiset equals that of the sampler output",
                 "'drawn per realization' is checked as 'not all realizations identical'"],
)
