"""C09 - fixed (masked-out) variables never move and never receive a gradient."""
from __future__ import annotations

import numpy as np

from ropt.enums import EventType
from ropt.evaluator import EvaluatorResult
from ropt.plan import OptimizerContext, Plan
from ropt.results import FunctionEvaluations, FunctionResults, Functions, GradientResults, Realizations

from ..core import PropertyCheck, nums
from .. import graddrive
from ..graddrive import DesignPlugin
from ..ropt_util import ScriptPlugin, outcome_of
from ..scipydrive import Captured, LoggingSciPyPlugin, patched

X0 = [1.0, -2.0, 3.0]
R, P = 2, 3
DESIGN = [[[1, 2, -1], [-2, 1, 1], [1, -1, 2]]] * R


def xf(pt, mask):
    n = sum(mask)
    return [1.0 if pt == 1 else float(4 - i) for i in range(1, n + 1)]


def base_config(sc, method):
    mask = sc["mask"]
    # (the mask may be spelled with integers 0/1: every second configuration does)
    spelled = [int(m) for m in mask] if (sum(mask) + len(sc.get("script", []))) % 2 else mask
    cfg = {"variables": {"initial_values": [9.0, 9.0, 9.0], "mask": spelled},
           "realizations": {"weights": [1.0, 2.0]},
           "gradient": {"number_of_perturbations": P, "perturbation_magnitudes": 0.25},
           "samplers": [{"method": "rvdesign/design", "shared": True}],
           "optimizer": {"method": method}}
    if all(mask):
        cfg["variables"].pop("mask")
    if sc.get("two"):
        cfg["samplers"] = cfg["samplers"] * 2
        free = [i for i, m in enumerate(mask) if m]
        cfg["gradient"]["samplers"] = [(free.index(i) % 2 if m else 0) for i, m in enumerate(mask)]
    return cfg


class Recorder:
    def __init__(self):
        self.rows, self.results = [], []

    def evaluator(self, variables, context):
        perts = context.perturbations
        for i in range(variables.shape[0]):
            self.rows.append((-1 if perts is None else int(perts[i]), variables[i].copy()))
        if getattr(self, "scribble", None) is not None:
            self.scribble[...] = 77.0                # the caller recycles the array it started the step with
        r = context.realizations.astype(np.float64)
        obj = ((variables ** 2).sum(axis=1) + r)[:, None]
        if getattr(self, "fail_perturbations", False) and perts is not None:
            obj[perts >= 0] = np.nan                 # every perturbed evaluation fails: no realization is left for the gradient
        if getattr(self, "three_objectives", False):
            obj = np.concatenate([obj, obj + variables[:, :1], 2.0 * obj - variables[:, 2:3]], axis=1)
        return EvaluatorResult(objectives=obj)

    def take(self):
        rows, res = self.rows, self.results
        self.rows, self.results = [], []
        return rows, res


def req_event(sc, item, nested_vec, rows, results, outcome, glen):
    fr = [r for r in results if isinstance(r, FunctionResults)]
    gr = [r for r in results if isinstance(r, GradientResults)]
    gz = []
    for g in gr:
        if g.gradients is not None:
            gz.append([bool(v == 0.0) for v in g.gradients.weighted_objective])
            gz += [[bool(v == 0.0) for v in row] for row in g.gradients.objectives]
    return {"ev": "Req", "kind": item["kind"], "xf": [int(v) for v in xf(item["pt"], sc["mask"])], "outcome": outcome,
            "nested": [] if nested_vec is None else [int(v) for v in nested_vec],
            "rows": nums([r for _, r in rows]), "unpert": nums([r for p, r in rows if p < 0]),
            "resvars": nums([f.evaluations.variables for f in fr]),
            "pertvars": nums([row for g in gr for row in g.evaluations.perturbed_variables.reshape(-1, 3)]),
            "gradzero": gz, "glen": glen, "x0": [], "mask": [], "seenlen": -1}


def drive_script(sc):
    mask = sc["mask"]
    rec = Recorder()
    DesignPlugin.design = DESIGN
    pm = graddrive.manager()
    pm.add_plugin("optimizer", "rvscript", ScriptPlugin())
    # one-row matrices where the library accepts them: always before a nested run, else for function-only requests
    as_row = lambda it: bool(sc.get("row")) and (sc["nested"] or it["kind"] == "f")  # noqa: E731
    script = [{"f": "f" in it["kind"], "g": "g" in it["kind"], "x": None if as_row(it) else xf(it["pt"], mask),
               "batch": [xf(it["pt"], mask)] if as_row(it) else None} for it in sc["script"]]
    # a variable transform as an orthogonal switch (every second non-nested history): requests and start values are
    # given in optimizer coordinates, everything that is judged (evaluator rows, reported user-domain results) is not
    import zlib
    transforms = None
    start = X0
    if not sc["nested"] and zlib.crc32(str(sc["script"]).encode()) % 2 == 1:
        from ..transforms_util import make_transforms
        s_, o_ = np.array([2.0, 0.5, 4.0]), np.array([1.0, -1.0, 2.0])
        # (... and as many objectives as variables, scaled by an objective transform: a square gradient matrix)
        transforms = make_transforms(var_scales=s_, var_offsets=o_, obj_scales=[2.0, 2.0, 2.0])
        rec.three_objectives = True
        fm = np.array(mask, dtype=bool)
        for item in script:
            for key in ("x", "batch"):
                if item.get(key) is not None:
                    item[key] = ((np.array(item[key], dtype=np.float64) - o_[fm]) / s_[fm]).tolist()
        start = ((np.array(X0) - o_) / s_).tolist()
    cfg = base_config(sc, "rvscript/script")
    cfg["optimizer"]["options"] = {"script": script}
    if getattr(rec, "three_objectives", False):
        cfg["objectives"] = {"weights": [1.0, 0.5, 0.25]}
    if zlib.crc32(("linear" + str(sc["script"])).encode()) % 2 == 0:
        # a (slack) linear constraint in the configuration: fixed variables still take their values from the start vector
        cfg["linear_constraints"] = {"coefficients": [[1.0, 1.0, 1.0]], "lower_bounds": [-np.inf], "upper_bounds": [1e6]}
    if zlib.crc32(("all perturbations fail" + str(sc["script"])).encode()) % 4 == 0:
        # threshold zero and every perturbed evaluation fails: whatever is reported as gradient, fixed entries are exactly zero
        cfg["realizations"]["realization_min_success"] = 0
        rec.fail_perturbations = True
    if not sc["nested"] and transforms is None and not all(mask) and zlib.crc32(str(sc["script"]).encode()) % 4 == 2:
        # relative perturbations, finite bounds for the free variables, NO bounds for the fixed ones: such a configuration is
        # either refused or run with the fixed variables untouched
        from ropt.config.enopt import EnOptConfig
        from ropt.enums import PerturbationType
        cfg["variables"].update({"lower_bounds": [-10.0 if m else -np.inf for m in mask], "upper_bounds": [10.0 if m else np.inf for m in mask]})
        cfg["gradient"].update({"perturbation_types": int(PerturbationType.RELATIVE), "perturbation_magnitudes": 0.0125})
        try:
            EnOptConfig.model_validate(cfg)
        except Exception:  # noqa: BLE001 - refused: there is no run to judge
            return [{"ev": "Start", "x0": [int(v) for v in X0], "mask": mask, "outcome": "refused", "kind": "", "xf": [], "nested": [],
                     "rows": [], "unpert": [], "resvars": [], "pertvars": [], "gradzero": [], "glen": -1, "seenlen": -1}]
    ctx = OptimizerContext(evaluator=rec.evaluator, plugin_manager=pm)
    ctx.add_observer(EventType.FINISHED_EVALUATION, lambda e: rec.results.extend(e.data["results"]))
    plan = Plan(ctx)
    step = plan.add_step("optimizer")
    ScriptPlugin.reset([])
    nested_log = []
    kwargs = {}
    if sc["nested"]:
        inner = Plan(ctx)
        count = {"n": 0}

        def inner_fn(_plan, variables):
            count["n"] += 1
            vec = np.array([v if m else v + count["n"] for v, m in zip(variables, mask)], dtype=np.float64)
            nested_log.append(vec.copy())
            return FunctionResults(batch_id=None, metadata={}, realizations=Realizations(failed_realizations=np.zeros(R, dtype=bool)),
                                   evaluations=FunctionEvaluations.create(vec, np.zeros((R, 1))),
                                   functions=Functions.create(np.array(0.0), np.array([0.0])))
        inner.add_function(inner_fn)
        kwargs["nested_optimization"] = inner
    # run the whole step, then cut the recording per request using the back-end's own request log
    per_request = []
    orig_cb = {}

    if transforms is not None:
        kwargs["transforms"] = transforms
    if not sc["nested"] and transforms is None and zlib.crc32(str(sc["script"]).encode()) % 4 == 0 and not all(mask):
        # the step OBJECT has a history: it ran before with a nested optimization that owns the fixed variables; the
        # judged run is an ordinary masked optimization on the same object
        warm = Plan(ctx)
        wcount = {"n": 0}

        def warm_fn(_plan, variables):
            wcount["n"] += 1
            vec = np.array([v if m else v + 10 * wcount["n"] for v, m in zip(variables, mask)], dtype=np.float64)
            return FunctionResults(batch_id=None, metadata={}, realizations=Realizations(failed_realizations=np.zeros(R, dtype=bool)),
                                   evaluations=FunctionEvaluations.create(vec, np.zeros((R, 1))),
                                   functions=Functions.create(np.array(0.0), np.array([0.0])))
        warm.add_function(warm_fn)
        # ... with the SAME configuration dict, in which every variable was free at that time: the mask is changed in place
        # between the two runs
        judged_mask = cfg["variables"]["mask"]
        cfg["variables"]["mask"] = [True] * len(mask)
        outcome_of(lambda: plan.run_step(step, config=cfg, variables=start, nested_optimization=warm))
        cfg["variables"]["mask"] = judged_mask
        rec.take()
        ScriptPlugin.reset([])
    # the start vector is handed over as a float array of the caller's, who overwrites it during the run
    start_array = np.array(start, dtype=np.float64)
    rec.scribble = start_array
    _, outcome = outcome_of(lambda: plan.run_step(step, config=cfg, variables=start_array, **kwargs))
    rec.scribble = None
    rows, results = rec.take()
    trace = [{"ev": "Start", "x0": [int(v) for v in X0], "mask": mask, "outcome": outcome, "kind": "", "xf": [], "nested": [], "rows": [],
              "unpert": [], "resvars": [], "pertvars": [], "gradzero": [], "glen": -1,
              "seenlen": -1}]
    # split rows/results per request: each request consumes the evaluator calls it caused, in order
    ri = 0; si = 0
    for n, item in enumerate(sc["script"]):
        need_rows = []
        need_res = []
        # rows: functions-only -> R rows; gradient -> R*P rows (+R if functions are evaluated along)
        kinds = item["kind"]
        # consume results first (they tell what was evaluated)
        got_f = got_g = False

        def is_f(i):
            return i < len(results) and isinstance(results[i], FunctionResults)

        def is_g(i):
            return i < len(results) and isinstance(results[i], GradientResults)
        if kinds == "f":
            if is_f(si):
                got_f = True; need_res.append(results[si]); si += 1
        elif kinds == "g":
            if is_f(si) and is_g(si + 1):           # the gradient needed fresh function values: one combined evaluation
                got_f = got_g = True; need_res += results[si:si + 2]; si += 2
            elif is_g(si):
                got_g = True; need_res.append(results[si]); si += 1
        else:
            if is_f(si):
                got_f = True; need_res.append(results[si]); si += 1
            if is_g(si):
                got_g = True; need_res.append(results[si]); si += 1
        nrows = (R if got_f else 0) + (R * P if got_g else 0)
        need_rows = rows[ri: ri + nrows]; ri += nrows
        nested_vec = nested_log[n] if n < len(nested_log) else None
        glen = -1
        if n < len(ScriptPlugin.returns) and "g" in kinds:
            glen = int(ScriptPlugin.returns[n][1].shape[-1]) if ScriptPlugin.returns[n][1].size else -1
        trace.append(req_event(sc, item, nested_vec, need_rows, need_res, outcome, glen))
    return trace


def drive_scipy(sc):
    mask = sc["mask"]
    rec = Recorder()
    DesignPlugin.design = DESIGN
    pm = graddrive.manager()
    pm.add_plugin("optimizer", "rvscipy", LoggingSciPyPlugin())
    cfg = base_config(sc, "rvscipy/slsqp")
    cfg["variables"].update({"lower_bounds": [-10.0] * 3, "upper_bounds": [10.0] * 3})
    ctx = OptimizerContext(evaluator=rec.evaluator, plugin_manager=pm)
    ctx.add_observer(EventType.FINISHED_EVALUATION, lambda e: rec.results.extend(e.data["results"]))
    plan = Plan(ctx)
    step = plan.add_step("optimizer")
    trace = []

    def script(kw):
        x0 = np.asarray(kw["x0"])
        b = kw.get("bounds")
        seen = int(x0.size) if b is None or len(np.atleast_1d(b.lb)) == x0.size else -2
        trace.append({"ev": "Start", "x0": [int(v) for v in X0], "mask": mask, "outcome": "ok", "kind": "", "xf": [], "nested": [],
                      "rows": [], "unpert": [], "resvars": [], "pertvars": [], "gradzero": [], "glen": -1, "seenlen": seen})
        for item in sc["script"]:
            x = np.array(xf(item["pt"], mask))
            glen = -1
            out = "ok"
            try:
                if "f" in item["kind"]:
                    kw["fun"](x)
                if "g" in item["kind"]:
                    glen = int(np.asarray(kw["jac"](x)).size)
            except Exception as exc:  # noqa: BLE001
                out = f"exc:{type(exc).__name__}"
            rows, results = rec.take()
            trace.append(req_event(sc, item, None, rows, results, out, glen))

    with patched(script=script):
        _, outcome = outcome_of(lambda: plan.run_step(step, config=cfg, variables=X0))
    if outcome != "ok":
        trace.append({"ev": "Rows", "rows": [], "outcome": outcome})
    return trace


def drive_real(sc):
    """Recorded real algorithms (gradient-based, gradient-free, population) started from explicit values."""
    mask = sc["mask"]
    rec = Recorder()
    cfg = {"variables": {"initial_values": [9.0, 9.0, 9.0], "mask": mask, "lower_bounds": [-10.0] * 3, "upper_bounds": [10.0] * 3},
           "realizations": {"weights": [1.0, 2.0]},
           "gradient": {"number_of_perturbations": P, "perturbation_magnitudes": 0.05},
           "optimizer": {"method": sc["method"], "max_functions": 8, "speculative": bool(sc.get("speculative"))}}
    if sc["method"] == "differential_evolution":
        cfg["optimizer"].update({"parallel": bool(sc.get("parallel")), "options": {"seed": 1, "popsize": 2, "maxiter": 2}})
    if sc.get("sampler"):
        cfg["samplers"] = [{"method": sc["sampler"]}]
    if sc.get("two") == "fixedonly":      # a sampler that is assigned fixed variables only
        cfg["samplers"] = [{"method": "norm"}, {"method": "uniform"}, {"method": sc.get("third", "norm")}]
        free = [i for i, m in enumerate(mask) if m]
        cfg["gradient"]["samplers"] = [(free.index(i) % 2 if m else 2) for i, m in enumerate(mask)]
    elif sc.get("two"):
        cfg["samplers"] = [{"method": "norm"}, {"method": "uniform"}]
        free = [i for i, m in enumerate(mask) if m]
        cfg["gradient"]["samplers"] = [(free.index(i) % 2 if m else 0) for i, m in enumerate(mask)]
    ctx = OptimizerContext(evaluator=rec.evaluator)
    plan = Plan(ctx)
    step = plan.add_step("optimizer")
    _, outcome = outcome_of(lambda: plan.run_step(step, config=cfg, variables=X0))
    rows, _ = rec.take()
    return [{"ev": "Start", "x0": [int(v) for v in X0], "mask": mask, "seenlen": -1},
            {"ev": "Rows", "rows": nums([r for _, r in rows]), "outcome": outcome}]


def drive(sc):
    if sc.get("real"):
        trace = drive_real(sc)
    elif sc["backend"] == "scipy":
        trace = drive_scipy(sc)
    else:
        trace = drive_script(sc)
    mask = sc["mask"]
    feats = {"nontrivial": bool(not all(mask) and any(mask) and (sc.get("real") or any("g" in it["kind"] for it in sc.get("script", [])))),
             "key": str(sc), "nested": bool(sc.get("nested")), "two": bool(sc.get("two"))}
    return trace, feats


def model_runs(tier):
    return [{"module": "MC_C09", "constants": {"L": 2 if tier == "quick" else 3}}]


def extra_scenarios(tier, seed):
    out = []
    masks = [[True, False, True], [False, False, True], [True, True, False]]
    for mask in masks:
        for method, kw in (("slsqp", {}), ("slsqp", {"speculative": True}), ("slsqp", {"two": True}), ("nelder-mead", {}), ("powell", {}),
                           ("slsqp", {"sampler": "sobol"}), ("slsqp", {"sampler": "lhs"}), ("slsqp", {"sampler": "halton"}), ("slsqp", {"sampler": "uniform"}),
                           ("l-bfgs-b", {}), ("differential_evolution", {}), ("differential_evolution", {"parallel": True})):
            if kw.get("two") and sum(mask) < 2:
                continue
            out.append({"real": True, "mask": mask, "method": method, **kw})
        for third in ("norm", "uniform", "truncnorm"):
            out.append({"real": True, "mask": mask, "method": "slsqp", "two": "fixedonly", "third": third})
    return out


CHECK = PropertyCheck(
    whole_run_clauses=('fixed_variable_varies_within_a_request', 'fixed_variable_moved'),
    prop="C09", trace_module="Trace_C09", drive=drive, model_runs=model_runs, extra_scenarios=extra_scenarios,
    rule=("TLC enumerates masks over three variables (all free, single free, ...) x request scripts of length 2 (thorough 3) x nested or "
          "not x one or two samplers x back-end (scripted plug-in, real SciPy plug-in under the scripted client); each runs on a real plan "
          "started from explicit values that differ from the configured ones, with an injected design that is non-zero on every variable; "
          "Trace_C09 keeps FixedVars!fixed and checks every evaluator row, reported vector and gradient entry; recorded real SLSQP, "
          "L-BFGS-B, Nelder-Mead, Powell and (parallel) differential evolution runs are validated on their rows. Non-trivial: a fixed and "
          "a free variable and a gradient evaluation (or a real run)."),
    assumptions=["the inner optimisation of the nested scenarios is a plan function that moves exactly the complementary variables",
                 "samplers obey their contract (zero for unhandled variables, C17)"],
)
