"""C18 - validated configurations are canonical, frozen and stable under re-validation."""
from __future__ import annotations

import json
from enum import Enum
from pathlib import Path

import numpy as np
from pydantic import BaseModel, ValidationError

from ropt.config.enopt import (EnOptConfig, GradientConfig, LinearConstraintsConfig, NonlinearConstraintsConfig,
                               ObjectiveFunctionsConfig, RealizationsConfig, VariablesConfig)
from ropt.transforms import OptModelTransforms, VariableScaler
from ropt.enums import PerturbationType

from ..core import PropertyCheck, num, nums

INF = float("inf")
P = 3


def raw_config(sc):
    V, R = sc["V"], sc["R"]
    var = {"initial_values": [0.0] * V}
    b = sc["bnd"]
    if b == "scalar":
        var.update(lower_bounds=-1.0, upper_bounds=2.0)
    elif b == "vector":
        var.update(lower_bounds=[float(v - 2) for v in range(1, V + 1)], upper_bounds=[float(v + 1) for v in range(1, V + 1)])
    elif b == "mixinf":
        var.update(lower_bounds=[-INF if v == 1 else 0.0 for v in range(1, V + 1)], upper_bounds=[INF if v == 2 else 3.0 for v in range(1, V + 1)])
    elif b == "crossed":
        var.update(lower_bounds=1.0, upper_bounds=0.0)
    elif b == "badlen":
        var.update(lower_bounds=[-1.0] * (V + 1), upper_bounds=[2.0] * V)
    elif b == "nested":        # the right number of values, but as a row matrix / a column matrix
        var.update(lower_bounds=[[-1.0] * V], upper_bounds=[[2.0] for _ in range(V)])
    elif b == "crossfix":
        k = min(2, V)
        var.update(lower_bounds=[1.0 if v == k else -1.0 for v in range(1, V + 1)], upper_bounds=[0.0 if v == k else 2.0 for v in range(1, V + 1)])
    m = sc["mask"]
    if m == "scalar":
        var["mask"] = True
    elif m == "vector":
        var["mask"] = [v != 2 for v in range(1, V + 1)]
    elif m == "badlen":
        var["mask"] = [True] * (V + 1)
    grad = {"number_of_perturbations": P,
            "perturbation_types": int(PerturbationType.ABSOLUTE if sc["ptype"] == "abs" else PerturbationType.RELATIVE)}
    g = sc["magn"]
    grad["perturbation_magnitudes"] = 0.25 if g == "scalar" else [0.25 * v for v in range(1, V + 1)] if g == "vector" else [0.25] * (V + 1)
    if sc["pms"] > 0:
        grad["perturbation_min_success"] = sc["pms"]
    rw = {"ones": [1.0] * R, "seq": [float(r) for r in range(1, R + 1)], "zeroend": [0.0 if r == R else 2.0 for r in range(1, R + 1)],
          "allzero": [0.0] * R, "mixed": [3.0 if r == 1 else -1.0 for r in range(1, R + 1)]}[sc["rwp"]]
    real = {"weights": rw}
    if sc["rms"] >= 0:
        real["realization_min_success"] = sc["rms"]
    cfg = {"variables": var, "gradient": grad, "realizations": real,
           "objectives": {"weights": {"one": [1.0], "big": [4.0], "pair": [1.0, 3.0], "zero": [0.0, 0.0], "mixed": [3.0, -1.0],
                                      "near": [0.5, 0.5 + 2.0 ** -17]}[sc["owp"]]}}
    # the optimizer section, with the method spelled bare or qualified (frozen like every other section)
    cfg["optimizer"] = {"method": "slsqp" if (V + R) % 2 else "SciPy/SLSQP", "max_iterations": 7}
    if V >= 2 and sc["magn"] != "badlen" and sc["mask"] != "badlen":
        # an explicit sampler assignment (an optional array that must be frozen like every other one)
        cfg["samplers"] = [{"method": "norm"}, {"method": "uniform"}]
        cfg["gradient"]["samplers"] = [v % 2 for v in range(V)]
    if sc["lin"] == "ok":
        cfg["linear_constraints"] = {"coefficients": [[1.0] * V, [1.0] + [-1.0] * (V - 1)], "lower_bounds": -1.0, "upper_bounds": [2.0, 3.0]}
    elif sc["lin"] == "badcols":
        cfg["linear_constraints"] = {"coefficients": [[1.0] * (V + 1), [1.0] * (V + 1)], "lower_bounds": -1.0, "upper_bounds": 2.0}
    elif sc["lin"] == "crossed":
        cfg["linear_constraints"] = {"coefficients": [[1.0] * V, [2.0] * V], "lower_bounds": 2.0, "upper_bounds": -1.0}
    if sc["nl"] == "scalar":
        cfg["nonlinear_constraints"] = {"lower_bounds": 0.0, "upper_bounds": 1.0}
    elif sc["nl"] == "vector":
        cfg["nonlinear_constraints"] = {"lower_bounds": [0.0, 0.0], "upper_bounds": [1.0, INF]}
    elif sc["nl"] == "crossed":
        cfg["nonlinear_constraints"] = {"lower_bounds": [1.0, 0.0], "upper_bounds": 0.0}
    return cfg


def project(c: EnOptConfig):
    return {"accepted": True, "rw": nums(c.realizations.weights), "ow": nums(c.objectives.weights), "owsum": num(float(np.sum(c.objectives.weights))),
            "rms": int(c.realizations.realization_min_success), "pms": int(c.gradient.perturbation_min_success),
            "lb": nums(c.variables.lower_bounds), "ub": nums(c.variables.upper_bounds),
            "mask": [] if c.variables.mask is None else [bool(b) for b in c.variables.mask],
            "magn": nums(c.gradient.perturbation_magnitudes),
            "nlin": 0 if c.linear_constraints is None else int(c.linear_constraints.lower_bounds.size
                                                             if c.linear_constraints.lower_bounds.size == c.linear_constraints.upper_bounds.size
                                                             == c.linear_constraints.coefficients.shape[0] else -1),
            "nnl": 0 if c.nonlinear_constraints is None else int(c.nonlinear_constraints.lower_bounds.size
                                                               if c.nonlinear_constraints.lower_bounds.size == c.nonlinear_constraints.upper_bounds.size else -1)}


EMPTY = {"accepted": False, "rw": [], "ow": [], "owsum": num(None), "rms": 0, "pms": 0, "lb": [], "ub": [], "mask": [], "magn": [], "nlin": 0, "nnl": 0}


PARTS = {"variables": VariablesConfig, "gradient": GradientConfig, "linear_constraints": LinearConstraintsConfig,
         "nonlinear_constraints": NonlinearConstraintsConfig, "objectives": ObjectiveFunctionsConfig, "realizations": RealizationsConfig}
NOTDONE = {"done": False, "first": dict(EMPTY), "route": dict(EMPTY), "objects": dict(EMPTY), "objects2": dict(EMPTY),
           "parts_unchanged": True, "mutations": [], "negcon": {"accepted": False, "consistent": True, "redump_accepted": True}}


def _try(fn):
    try:
        return project(fn())
    except (ValidationError, ValueError, TypeError, AssertionError):
        return dict(EMPTY)


def _snapshot(obj):
    return json.dumps(obj.model_dump(round_trip=True), default=jsonable, sort_keys=True), [
        bool(v.flags.writeable) for v in vars(obj).values() if isinstance(v, np.ndarray)]


def transformed(raw, sc, plain):
    """Validation with a variable transform in the context: from the raw dictionary, from the dumped form of the plain
    validation, and (twice) from sections the caller has validated beforehand as objects of their own."""
    V = sc["V"]
    from ..transforms_util import ConstraintScaler
    nnl = {"none": 0, "scalar": 1, "vector": 2, "crossed": 2}[sc["nl"]]
    ctx = OptModelTransforms(variables=VariableScaler(np.array([2.0, 0.5, 4.0][:V]), np.array([1.0, 2.0, 3.0][:V])),
                             nonlinear_constraints=ConstraintScaler([2.0, 4.0][:nnl]) if nnl else None)
    out = dict(NOTDONE, done=True)
    first = None
    try:
        first = EnOptConfig.model_validate(raw, context=ctx)
        out["first"] = project(first)
    except (ValidationError, ValueError, TypeError, AssertionError):
        pass
    dumped = json.loads(json.dumps(plain.model_dump(round_trip=True), default=jsonable))
    out["route"] = _try(lambda: EnOptConfig.model_validate(dumped, context=ctx))
    parts = {k: PARTS[k].model_validate(v) for k, v in raw.items() if k in PARTS and k != "gradient"}
    # (the gradient section needs the variables to expand itself and is handed over as a dictionary)
    before = {k: _snapshot(v) for k, v in parts.items()}
    mixed = {**raw, **parts}
    out["objects"] = _try(lambda: EnOptConfig.model_validate(mixed, context=ctx))
    out["objects2"] = _try(lambda: EnOptConfig.model_validate(mixed, context=ctx))
    out["parts_unchanged"] = all(before[k] == _snapshot(v) for k, v in parts.items())
    if first is not None:
        muts = []
        mutate(first, "config", muts, set())
        out["mutations"] = muts
    # a constraint transform with a NEGATIVE scale reverses the order of the bounds: whatever validation does with it, an
    # accepted configuration has lower <= upper and its dumped form validates again
    out["negcon"] = {"accepted": False, "consistent": True, "redump_accepted": True}
    if nnl:
        neg = OptModelTransforms(variables=ctx.variables, nonlinear_constraints=ConstraintScaler([-2.0, 4.0][:nnl]))
        try:
            c = EnOptConfig.model_validate(raw, context=neg)
            lo, up = c.nonlinear_constraints.lower_bounds, c.nonlinear_constraints.upper_bounds
            again = True
            try:
                EnOptConfig.model_validate(json.loads(json.dumps(c.model_dump(round_trip=True), default=jsonable)))
            except (ValidationError, ValueError, TypeError, AssertionError):
                again = False
            out["negcon"] = {"accepted": True, "consistent": bool(np.all(lo <= up)), "redump_accepted": again}
        except (ValidationError, ValueError, TypeError, AssertionError):
            pass
    return out


def numpy_route(raw):
    """The same configuration with every numeric leaf given as a numpy array of the target type in its most compact
    shape (scalars as 0-d arrays, a single row as a vector): after validation the caller scribbles over its arrays; the
    validated configuration must not notice (no stored array may be a view of a caller's array)."""
    inputs = []

    def conv(x, key=None):
        if isinstance(x, dict):
            return {k: conv(v, k) for k, v in x.items()}
        if key in ("options", "method", "shared"):
            return x
        if isinstance(x, bool) or (isinstance(x, list) and x and all(isinstance(v, bool) for v in x)):
            a = np.array(x, dtype=np.bool_)
        elif isinstance(x, float):
            a = np.array(x, dtype=np.float64)
        elif isinstance(x, int) and key in ("samplers",):
            a = np.array(x, dtype=np.intc)
        elif isinstance(x, list) and x and all(isinstance(v, (int, float)) and not isinstance(v, bool) for v in x):
            a = np.array(x, dtype=np.intc if key == "samplers" else np.float64)
            if a.size == 1:
                a = a.reshape(())            # a single value in its most compact shape: a 0-d array
        elif isinstance(x, list) and x and all(isinstance(v, list) for v in x):
            a = np.array(x, dtype=np.float64)
            if a.shape[0] == 1:
                a = a[0].copy()
        elif isinstance(x, list):
            return [conv(v, key) for v in x]
        else:
            return x
        inputs.append(a)
        return a
    raw_np = conv(_deep(raw))
    raw_np["linear_constraints"] = raw_np.get("linear_constraints") or {"coefficients": np.ones(len(np.atleast_1d(raw["variables"]["initial_values"]))),
                                                                          "lower_bounds": np.array(-1.0), "upper_bounds": np.array(2.0)}
    inputs += [v for v in raw_np["linear_constraints"].values() if isinstance(v, np.ndarray)]
    try:
        c = EnOptConfig.model_validate(raw_np)
    except (ValidationError, ValueError, TypeError):
        return True
    before = json.dumps(c.model_dump(round_trip=True), default=jsonable, sort_keys=True)
    for a in inputs:
        if a.dtype == np.bool_:
            a[...] = ~a
        else:
            a[...] = a + 1000
    after = json.dumps(c.model_dump(round_trip=True), default=jsonable, sort_keys=True)
    return before == after


def _deep(x):
    import copy
    return copy.deepcopy(x)


def jsonable(o):
    if isinstance(o, np.ndarray):
        return o.tolist()
    if isinstance(o, (np.integer,)):
        return int(o)
    if isinstance(o, (np.floating,)):
        return float(o)
    if isinstance(o, (np.bool_,)):
        return bool(o)
    if isinstance(o, Enum):
        return o.value
    if isinstance(o, Path):
        return str(o)
    if isinstance(o, (set, tuple)):
        return list(o)
    raise TypeError(type(o))


def mutate(obj, path, out, seen):
    """Try to assign every field and to write into every array reachable from obj."""
    if id(obj) in seen:
        return
    seen.add(id(obj))
    if isinstance(obj, BaseModel):
        for name in type(obj).model_fields:
            val = getattr(obj, name)
            try:
                setattr(obj, name, val)
                out.append({"path": f"{path}.{name}", "rejected": False})
            except (AttributeError, ValidationError, TypeError):
                out.append({"path": f"{path}.{name}", "rejected": True})
            mutate(val, f"{path}.{name}", out, seen)
    elif isinstance(obj, np.ndarray):
        try:
            obj[...] = obj
            out.append({"path": path + "[]", "rejected": False})
        except ValueError:
            out.append({"path": path + "[]", "rejected": True})
    elif isinstance(obj, (tuple, list)):
        for i, v in enumerate(obj):
            mutate(v, f"{path}[{i}]", out, seen)


def drive(sc):
    raw = raw_config(sc)
    e = {"ev": "Canon", **{k: sc[k] for k in ("V", "R", "rwp", "owp", "bnd", "mask", "ptype", "magn", "rms", "pms", "lin", "nl")},
         "accepted": False, "first": dict(EMPTY), "again": dict(EMPTY), "sameobject": True, "mutations": [], "error": "",
         "tf": dict(NOTDONE), "independent_of_callers_arrays": True}
    try:
        c = EnOptConfig.model_validate(raw)
    except Exception as exc:  # noqa: BLE001 - whatever is raised, the configuration was not accepted
        e["error"] = type(exc).__name__
        return [e], {"nontrivial": False, "key": str(sc), "rejected": True}
    e["accepted"] = True
    if sc["bnd"] == "nested":
        # (a configuration the specification refuses: nothing further is projected from whatever was accepted)
        return [e], {"nontrivial": False, "key": str(sc), "rejected": False}
    e["first"] = project(c)
    dumped = json.loads(json.dumps(c.model_dump(round_trip=True), default=jsonable))
    try:
        c2 = EnOptConfig.model_validate(dumped)
        e["again"] = project(c2)
    except (ValidationError, ValueError) as exc:
        e["again"] = dict(EMPTY)
    e["sameobject"] = EnOptConfig.model_validate(c) is c
    muts = []
    mutate(c, "config", muts, set())
    e["mutations"] = muts
    e["tf"] = transformed(raw, sc, c)
    e["independent_of_callers_arrays"] = bool(numpy_route(raw))
    nondefault = sum([sc["rwp"] != "ones", sc["owp"] != "one", sc["bnd"] != "default", sc["mask"] != "none", sc["ptype"] != "abs",
                      sc["magn"] != "scalar", sc["rms"] >= 0, sc["pms"] >= 0, sc["lin"] != "none", sc["nl"] != "none"])
    return [e], {"nontrivial": bool(nondefault >= 2), "key": str(sc), "rejected": False, "ptype": sc["ptype"],
                 "open_paths": sorted({m["path"].split(".")[1] if "." in m["path"] else m["path"] for m in muts if not m["rejected"]})}


def model_runs(tier):
    return [{"module": "MC_C18"}]


CHECK = PropertyCheck(
    prop="C18", trace_module="Trace_C18", drive=drive, model_runs=model_runs,
    rule=("TLC enumerates three families of raw configurations (weights/thresholds; bounds, masks, perturbation types and magnitudes "
          "in scalar / vector / wrong-length / crossed / infinite forms; linear and non-linear constraint shapes) and checks the canonical "
          "form facts of ConfigCanon.tla; each is validated by EnOptConfig, dumped, re-validated, validated as an object, and every "
          "attribute and array reachable from it is mutation-tested; then the same with a variable transform in the validation context "
          "(from the raw dictionary, from the dumped plain validation, twice from sections validated beforehand as objects, which "
          "must stay untouched), compared with ConfigCanon!ScaledCanon. Non-trivial: >=2 non-default sections."),
    assumptions=["re-validation of a dumped form without a transforms context is the hand-off to an external optimizer process; with a "
                 "context the dumped form of the PLAIN validation is used (a dumped transformed configuration is already in the optimizer domain)",
                 "the options dictionaries are user data and are not mutation-tested"],
)
