"""C07 - values handed to the optimizer match the ensemble for any request order."""
from __future__ import annotations

import json

import numpy as np

from ropt.evaluator import EvaluatorResult
from ropt.plan import OptimizerContext, Plan

from ..core import PropertyCheck
from ..ropt_util import outcome_of
from ..scipydrive import Captured, LoggingSciPyPlugin, manager_with_logging, patched

INF = float("inf")
POOL = {1: np.array([0.0, 0.0]), 2: np.array([1.0, 2.0]), 3: np.array([-2.0, 1.0]),
        4: np.array([1.0, -1.5])}       # 4 shares its first coordinate with 2 (used by the restart scenarios only)


OFFSET = 500.0        # two realizations return f and f + 1000: the ensemble value is f + 500


def fobj(x):
    return (x[..., 0] - 3.0) ** 2 + 2.0 * (x[..., 1] + 1.0) ** 2 + OFFSET


def _raw(x):
    return (x[..., 0] - 3.0) ** 2 + 2.0 * (x[..., 1] + 1.0) ** 2


def gobj(x):
    return np.array([2.0 * (x[0] - 3.0), 4.0 * (x[1] + 1.0)])


def fcon(x):
    return x[..., 0] ** 2 + x[..., 1] + 5.0 * x[..., 1] ** 2


def gcon(x):
    return np.array([2.0 * x[0], 1.0 + 10.0 * x[1]])


def pool_index(x):
    for i, p in POOL.items():
        if np.allclose(x, p, atol=0.05):
            return i
    return 0


def decode(kind, value, hasnl):
    """Pool point whose exact quantity equals the returned value (-1 if the quantity does not identify a point)."""
    hits = []
    for i, p in POOL.items():
        if kind == "f":
            ok = abs(value - fobj(p)) < 1e-6
        elif kind == "g":
            ok = np.allclose(value, gobj(p), atol=0.5)
        elif kind == "c_nl":
            ok = abs(value - (100.0 - fcon(p))) < 1e-6
        elif kind == "c_lin":
            ok = abs(value - (50.0 - p.sum())) < 1e-6
        elif kind == "J_nl":
            ok = np.allclose(value, -gcon(p), atol=0.5)
        else:
            return -1
        if ok:
            hits.append(i)
    return hits[0] if len(hits) == 1 else 0


METHOD = {"grad": "slsqp", "nograd": "cobyla", "pop": "differential_evolution"}


def run(sc, speculative):
    cls = sc["cls"]
    hasnl, haslin = sc.get("nl", True), sc.get("lin", True)
    cfg = {"variables": {"initial_values": POOL[1].tolist()},
           "optimizer": {"method": "rvscipy/" + sc.get("method", METHOD[cls]), "speculative": bool(speculative),
                         "split_evaluations": bool(sc["split"])},
           "realizations": {"weights": [1.0, 1.0]},
           "gradient": {"number_of_perturbations": 5, "perturbation_magnitudes": 0.001}}
    if cls == "pop":
        # a third, fixed variable whose configured value (9) differs from the value the run is started with (0): every
        # evaluated vector, single or batch, must carry the start value
        cfg["variables"] = {"initial_values": POOL[1].tolist() + [9.0], "mask": [True, True, False],
                            "lower_bounds": [-5.0, -5.0, -10.0], "upper_bounds": [5.0, 5.0, 10.0]}
        cfg["optimizer"]["parallel"] = True
    import zlib
    crc = zlib.crc32(str(sc["hist"]).encode())
    # a "monitor only" non-linear constraint (no bound on either side) IN FRONT of the bounded one: it is not handed to the
    # algorithm, the rows that are handed over still are the bounded constraint and the linear row
    monitor = hasnl and cls != "pop" and crc % 3 == 0
    if hasnl:
        cfg["nonlinear_constraints"] = ({"lower_bounds": [-INF, -INF], "upper_bounds": [INF, 100.0]} if monitor
                                        else {"lower_bounds": [-INF], "upper_bounds": [100.0]})
        if cls == "pop":      # a second constraint behind the judged one: the population's values come as (constraints, members)
            cfg["nonlinear_constraints"] = {"lower_bounds": [-INF, -INF], "upper_bounds": [100.0, 5000.0]}
    if haslin:
        cfg["linear_constraints"] = {"coefficients": [[1.0, 1.0] + ([0.0] if cls == "pop" else [])], "lower_bounds": [-INF], "upper_bounds": [50.0]}
    # a variable transform as an orthogonal switch: the algorithm's points (the pool) are optimizer coordinates, the
    # evaluator receives user coordinates and maps them back before it looks at them
    transforms = None
    S_, O_ = np.array([2.0, 0.5]), np.array([1.0, -1.0])
    if cls != "pop" and crc % 2 == 0:
        from ..transforms_util import make_transforms
        transforms = make_transforms(var_scales=S_, var_offsets=O_)
        cfg["variables"]["initial_values"] = (POOL[1] * S_ + O_).tolist()
        if haslin:       # the same row x1 + x2 <= 50 of the optimizer coordinates, written for the user's coordinates
            cfg["linear_constraints"] = {"coefficients": [(1.0 / S_).tolist()], "lower_bounds": [-INF],
                                         "upper_bounds": [50.0 + float((O_ / S_).sum())]}
    pfail = cls == "grad" and zlib.crc32(str(sc["hist"]).encode()) % 2 == 1      # failures confined to perturbed evaluations
    if pfail:
        cfg["realizations"]["realization_min_success"] = 1
    evals = []

    def evaluator(variables, context):
        perts = context.perturbations
        hasf = perts is None or bool(np.any(perts < 0))
        hasg = perts is not None and bool(np.any(perts >= 0))
        sel = context.realizations == 0
        fixedpart = 7.0 * variables[:, 2] if cls == "pop" else 0.0          # zero as long as the fixed variable has its start value
        variables = variables[:, :2]
        if transforms is not None:
            variables = (variables - O_) / S_
        if perts is None:
            pts = [pool_index(v) for v in variables[sel]]
        else:
            base = variables[(perts < 0) & sel] if hasf else variables
            pts = [pool_index(base.mean(axis=0))] if not hasf else [pool_index(v) for v in base]
        evals.append({"pts": pts, "f": hasf, "g": hasg})
        objectives = (_raw(variables) + fixedpart + 1000.0 * context.realizations)[:, None]
        if pfail and perts is not None:
            # every perturbed evaluation of the second realization fails: the gradient then rests on the first realization
            # alone (the same gradient), the function values of that point are not concerned
            objectives[(perts >= 0) & (context.realizations == 1)] = np.nan
        cons = fcon(variables)[:, None] if hasnl else None
        if monitor:
            cons = np.concatenate([(777.0 + variables[:, :1]), cons], axis=1)
        if cls == "pop" and hasnl:
            cons = np.concatenate([cons, 3.0 * cons + 1.0 + variables[:, :1]], axis=1)
        return EvaluatorResult(objectives=objectives, constraints=cons)

    events = []
    sig = []

    def script(kw):
        cons = kw.get("constraints") or []
        nl_rows = [c for c in cons] if isinstance(cons, list) else []
        ccount = {"c": 0, "J": 0}
        for item in sc["hist"]:
            op = item["op"]
            xs = item["xs"] if "xs" in item else [item["x"]]
            if cls == "pop":
                x = np.stack([POOL[i] for i in xs], axis=1)        # vectorized convention: (variables, members)
            else:
                x = POOL[xs[0]].copy()
            LoggingSciPyPlugin.log.clear(); del evals[:]
            kinds = []

            def call():
                if op == "f":
                    return kw["func" if cls == "pop" else "fun"](x), ["f"]
                if op == "g":
                    return kw["jac"](x), ["g"]
                if cls == "pop":            # constraint objects of differential_evolution
                    obj = [c for c in cons if hasattr(c, "fun")][0]
                    return obj.fun(x), ["c_popnl"]
                k = ccount[op] % max(1, len(nl_rows)); ccount[op] += 1
                row = nl_rows[k]
                isnl = hasnl and k == 0
                if op == "c":
                    return row["fun"](x), ["c_nl" if isnl else "c_lin"]
                return row["jac"](x), ["J_nl" if isnl else "J_lin"]
            res, outcome = outcome_of(call)
            ats = []
            if outcome == "ok":
                val, kinds = res
                vals = np.atleast_1d(np.asarray(val, dtype=np.float64))
                if cls == "pop":
                    vals = vals.reshape(-1)[: len(xs)] if op == "f" else np.asarray(val).reshape(-1)[: len(xs)]
                    kind = "f" if op == "f" else "c_popraw"
                    for v, xi in zip(vals, xs):
                        ats.append(decode("f", v, hasnl) if op == "f" else _decode_raw_con(v))
                else:
                    ats.append(decode(kinds[0], vals if kinds[0] in ("g", "J_nl", "J_lin") else float(vals[0]), hasnl))
                # deterministic quantities (values) are compared numerically, stochastic gradient estimates through the
                # pool point they belong to (their noise depends on how many perturbations were drawn before)
                sig.append(ats if op in ("g", "J") else np.round(np.asarray(val, dtype=np.float64), 6).tolist())
            cbs = []
            for c in LoggingSciPyPlugin.log:
                cx = c["x"]
                pts = [pool_index(v) for v in (cx if cx.ndim > 1 else [cx])]
                cbs.append({"pt": int("".join(str(p) for p in pts)) if pts else 0, "pts": pts, "f": c["f"], "g": c["g"]})
            events.append({"ev": "Req", "op": op, "xs": xs, "ats": ats, "outcome": outcome, "cbs": cbs,
                           "reqpt": int("".join(str(p) for p in xs)),
                           "evals": [dict(e) for e in evals], "cls": "grad" if cls == "grad" else "nograd",
                           "split": bool(sc["split"]), "speculative": bool(speculative)})

    pm = manager_with_logging()
    plan = Plan(OptimizerContext(evaluator=evaluator, plugin_manager=pm))
    step = plan.add_step("optimizer")
    with patched(script=script):
        kwargs = {"variables": POOL[1].tolist() + [0.0]} if cls == "pop" else {}
        if transforms is not None:
            kwargs["transforms"] = transforms
        _, outcome = outcome_of(lambda: plan.run_step(step, config=cfg, **kwargs))
    if outcome != "ok":
        events.append({"ev": "Req", "op": "run", "xs": [], "ats": [], "outcome": outcome, "cbs": [], "evals": [], "reqpt": 0,
                       "cls": "grad" if cls == "grad" else "nograd", "split": bool(sc["split"]), "speculative": bool(speculative)})
    return events, sig


def _decode_raw_con(v):
    hits = [i for i, p in POOL.items() if abs(v - fcon(p)) < 1e-6]
    return hits[0] if len(hits) == 1 else 0


class Interner:
    def __init__(self):
        self.ids = {}

    def __call__(self, x):
        key = tuple(np.round(np.asarray(x, dtype=np.float64), 9).tolist())
        return self.ids.setdefault(key, len(self.ids) + 1)


def drive_real(sc):
    """Code -> spec: a real SciPy algorithm drives the plug-in; every call of a callable is a Req event."""
    method, cls = sc["method"], sc["cls"]
    hasnl, haslin = sc["nl"], sc["lin"]
    cfg = {"variables": {"initial_values": [0.5, 0.5]},
           "optimizer": {"method": "rvscipy/" + method, "speculative": bool(sc["speculative"]),
                         "split_evaluations": bool(sc["split"]), "max_functions": sc["maxfun"]},
           "realizations": {"weights": [1.0, 1.0]},
           "gradient": {"number_of_perturbations": 5, "perturbation_magnitudes": 0.001}}
    if sc["bounds"]:
        cfg["variables"].update({"lower_bounds": [-5.0, -5.0], "upper_bounds": [5.0, 5.0]})
    if cls == "pop":
        cfg["optimizer"].update({"parallel": True, "options": {"seed": 3, "popsize": 3, "maxiter": 2, "tol": 1e-9}})
    if hasnl:
        cfg["nonlinear_constraints"] = {"lower_bounds": [-INF], "upper_bounds": [100.0]}
    if haslin:
        cfg["linear_constraints"] = {"coefficients": [[1.0, 1.0]], "lower_bounds": [-INF], "upper_bounds": [50.0]}
    pid = Interner()
    evals, events = [], []

    def evaluator(variables, context):
        perts = context.perturbations
        hasf = perts is None or bool(np.any(perts < 0))
        hasg = perts is not None and bool(np.any(perts >= 0))
        sel = context.realizations == 0
        base = variables[sel] if perts is None else (variables[(perts < 0) & sel] if hasf else variables[:0])
        evals.append({"pts": [pid(v) for v in base], "f": hasf, "g": hasg})
        return EvaluatorResult(objectives=(_raw(variables) + 1000.0 * context.realizations)[:, None],
                               constraints=fcon(variables)[:, None] if hasnl else None)

    def wrap(op, kind, fn):
        def inner(x, *a, **k):
            x = np.asarray(x, dtype=np.float64)
            members = x.T if (cls == "pop" and x.ndim > 1) else x[None, :]
            xs = [pid(m) for m in members]
            LoggingSciPyPlugin.log.clear(); del evals[:]
            from ropt.exceptions import OptimizationAborted
            stop = None
            try:
                val, outcome = fn(x, *a, **k), "ok"
            except OptimizationAborted as exc:          # budget / failure / abort: the documented way a run ends
                val, outcome, stop = None, "stopped", exc
            except Exception as exc:  # noqa: BLE001
                val, outcome, stop = None, f"exc:{type(exc).__name__}", exc
            ats = []
            # real algorithms also visit points closer together than the plug-in's point tolerance (outside the
            # property's quantifier): values are attributed with a tolerance that such neighbours satisfy
            tol = lambda ref: 1e-2 * (1.0 + abs(ref))  # noqa: E731
            if outcome == "ok":
                v = np.asarray(val, dtype=np.float64)
                for j, m in enumerate(members):
                    if kind == "f":
                        ok = abs(v.reshape(-1)[j] - fobj(m)) < tol(fobj(m))
                    elif kind == "g":
                        ok = np.allclose(v, gobj(m), atol=0.5)
                    elif kind == "c_nl":
                        ok = abs(float(v.reshape(-1)[0]) - (100.0 - fcon(m))) < tol(fcon(m))
                    elif kind == "c_lin":
                        ok = abs(float(v.reshape(-1)[0]) - (50.0 - m.sum())) < tol(m.sum())
                    elif kind == "J_nl":
                        ok = np.allclose(v, -gcon(m), atol=0.5)
                    elif kind == "c_popnl":
                        ok = abs(v.reshape(-1)[j] - fcon(m)) < tol(fcon(m))
                    else:
                        ok = None
                    ats.append(-1 if ok is None else (xs[j] if ok else 0))
            cbs = []
            for c in LoggingSciPyPlugin.log:
                cx = c["x"]
                pts = [pid(q) for q in (cx if cx.ndim > 1 else [cx])]
                cbs.append({"pt": pid(np.concatenate([np.atleast_1d(q) for q in cx]) if cx.ndim > 1 else cx) + (1000 if cx.ndim > 1 else 0),
                            "pts": pts, "f": c["f"], "g": c["g"]})
            events.append({"ev": "Req", "op": op, "xs": xs, "ats": ats, "outcome": outcome, "cbs": cbs,
                           "reqpt": (pid(np.concatenate([np.atleast_1d(q) for q in members])) + 1000) if len(members) > 1 else xs[0],
                           "evals": [dict(e) for e in evals], "cls": "grad" if cls == "grad" else "nograd",
                           "split": bool(sc["split"]), "speculative": bool(sc["speculative"])})
            if stop is not None:
                raise stop
            return val
        return inner

    def wrap_real(which, kw):
        kw = dict(kw)
        if which == "minimize":
            kw["fun"] = wrap("f", "f", kw["fun"])
            if callable(kw.get("jac")):
                kw["jac"] = wrap("g", "g", kw["jac"])
            cons = []
            for k, c in enumerate(kw.get("constraints") or []):
                c = dict(c)
                isnl = hasnl and k == 0
                c["fun"] = wrap("c", "c_nl" if isnl else "c_lin", c["fun"])
                if "jac" in c:
                    c["jac"] = wrap("J", "J_nl" if isnl else "J_lin", c["jac"])
                cons.append(c)
            kw["constraints"] = cons
        else:
            kw["func"] = wrap("f", "f", kw["func"])
            for c in kw.get("constraints") or []:
                if hasattr(c, "fun") and callable(c.fun):
                    c.fun = wrap("c", "c_popnl", c.fun)
        return kw

    pm = manager_with_logging()
    plan = Plan(OptimizerContext(evaluator=evaluator, plugin_manager=pm))
    step = plan.add_step("optimizer")
    with patched(wrap_real=wrap_real):
        _, outcome = outcome_of(lambda: plan.run_step(step, config=cfg))
    if outcome not in ("ok",):
        events.append({"ev": "Req", "op": "run", "xs": [], "ats": [], "outcome": outcome, "cbs": [], "evals": [], "reqpt": 0,
                       "cls": "grad" if cls == "grad" else "nograd", "split": bool(sc["split"]), "speculative": bool(sc["speculative"])})
    return events, {"nontrivial": len(events) > 3, "key": "real|" + json.dumps(sc, sort_keys=True), "cls": cls, "split": bool(sc["split"]),
                    "constraint_first_at_new_point": False}


def drive_restart(sc):
    """One EnsembleOptimizer object started twice (second variable fixed by the mask, with another start value the second
    time): the second run begins at the free variables the first one ended with - nothing of the first run may be served."""
    from ropt.config.enopt import EnOptConfig
    from ropt.ensemble_evaluator import EnsembleEvaluator
    from ropt.optimization import EnsembleOptimizer
    cfg = {"variables": {"initial_values": POOL[4].tolist(), "mask": [True, False]},
           "optimizer": {"method": "rvscipy/slsqp", "speculative": bool(sc["speculative"]), "split_evaluations": bool(sc["split"])},
           "realizations": {"weights": [1.0, 1.0]},
           "gradient": {"number_of_perturbations": 5, "perturbation_magnitudes": 0.001},
           "nonlinear_constraints": {"lower_bounds": [-INF], "upper_bounds": [100.0]}}
    evals, events = [], []
    state = {"run": 0}
    fixed = {1: POOL[4][1], 2: POOL[2][1]}

    def evaluator(variables, context):
        perts = context.perturbations
        hasf = perts is None or bool(np.any(perts < 0))
        hasg = perts is not None and bool(np.any(perts >= 0))
        sel = context.realizations == 0
        if perts is None:
            pts = [pool_index(v) for v in variables[sel]]
        else:
            base = variables[(perts < 0) & sel] if hasf else variables
            pts = [pool_index(base.mean(axis=0))] if not hasf else [pool_index(v) for v in base]
        evals.append({"pts": pts, "f": hasf, "g": hasg})
        return EvaluatorResult(objectives=(_raw(variables) + 1000.0 * context.realizations)[:, None], constraints=fcon(variables)[:, None])

    def script(kw):
        state["run"] += 1
        run = state["run"]
        row = (kw.get("constraints") or [])[0]
        me = 4 if run == 1 else 2
        order = ["f", "g", "c", "J"] if run == 1 else [sc["op"]] + [o for o in ("f", "g", "c", "J") if o != sc["op"]]
        x = np.array([1.0])
        for op in order:
            LoggingSciPyPlugin.log.clear(); del evals[:]
            fn, kind = {"f": (kw["fun"], "f"), "g": (kw["jac"], "g"), "c": (row["fun"], "c_nl"), "J": (row["jac"], "J_nl")}[op]
            res, outcome = outcome_of(lambda: fn(x))
            ats = []
            if outcome == "ok":
                vals = np.atleast_1d(np.asarray(res, dtype=np.float64))
                if kind in ("g", "J_nl"):          # only the free variable is exposed: complete with the exact fixed-variable entry
                    full = np.array([vals[0], (gobj(POOL[me]) if kind == "g" else -gcon(POOL[me]))[1]])
                    ats.append(decode(kind, full, True))
                else:
                    ats.append(decode(kind, float(vals[0]), True))
            cbs = [{"pt": me, "pts": [me], "f": c["f"], "g": c["g"]} for c in LoggingSciPyPlugin.log]
            events.append({"ev": "Req", "op": op, "xs": [me], "ats": ats, "outcome": outcome, "cbs": cbs, "reqpt": me,
                           "evals": [dict(e) for e in evals], "cls": "grad", "split": bool(sc["split"]), "speculative": bool(sc["speculative"])})

    pm = manager_with_logging()
    config = EnOptConfig.model_validate(cfg)
    with patched(script=script):
        optimizer = EnsembleOptimizer(config, EnsembleEvaluator(config, None, evaluator, pm), pm)
        _, out1 = outcome_of(lambda: optimizer.start(np.array([1.0, fixed[1]])))
        events.append({"ev": "Reset"})
        _, out2 = outcome_of(lambda: optimizer.start(np.array([1.0, fixed[2]])))
    for out in (out1, out2):
        if out != "ok":
            events.append({"ev": "Req", "op": "run", "xs": [], "ats": [], "outcome": out, "cbs": [], "evals": [], "reqpt": 0,
                           "cls": "grad", "split": bool(sc["split"]), "speculative": bool(sc["speculative"])})
    return events, {"nontrivial": True, "key": "restart|" + json.dumps(sc, sort_keys=True), "cls": "grad", "split": bool(sc["split"]),
                    "constraint_first_at_new_point": sc["op"] in ("c", "J")}


def drive(sc):
    if sc.get("restart"):
        return drive_restart(sc)
    if sc.get("real"):
        return drive_real(sc)
    evA, sigA = run(sc, False)
    evB, sigB = run(sc, True)
    interned = {s: i for i, s in enumerate(sorted({json.dumps(sigA), json.dumps(sigB)}))}
    trace = evA + [{"ev": "Reset"}] + evB + [{"ev": "Pair", "sigA": interned[json.dumps(sigA)], "sigB": interned[json.dumps(sigB)]}]
    if sc["cls"] != "pop" and "nl" not in sc and any(h["op"] in ("c", "J") for h in sc["hist"]):
        # the same history on a problem with linear constraints only (no ensemble evaluation behind the constraint values)
        evL, _ = run(dict(sc, nl=False, lin=True), False)
        trace += [{"ev": "Reset"}] + evL
    hist = sc["hist"]
    pts = [tuple(h.get("xs", [h.get("x")])) for h in hist]
    firsts = set()
    later = False
    for h, p in zip(hist, pts):
        if (p,) in firsts or any(q == p for q in firsts):
            later = True
        firsts.add(p)
    feats = {"nontrivial": bool(len(set(pts)) >= 2 and later), "key": json.dumps(sc, sort_keys=True), "cls": sc["cls"],
             "split": bool(sc["split"]), "constraint_first_at_new_point": any(
                 h["op"] in ("c", "J") and (i == 0 or pts[i] != pts[i - 1]) for i, h in enumerate(hist))}
    return trace, feats


def model_runs(tier):
    runs = []
    L = 3 if tier == "quick" else 4
    pts = "{1, 2}" if tier == "quick" else "{1, 2, 3}"
    for cls in ('"grad"', '"nograd"'):
        for split in ("FALSE", "TRUE"):
            runs.append({"module": "MC_C07", "constants": {"Class": cls, "Speculative": "FALSE", "Split": split, "L": L,
                                                           "Points": pts}})
            runs.append({"module": "MC_C07", "constants": {"Class": cls, "Speculative": "TRUE", "Split": split, "L": L,
                                                           "Points": pts, "Emit": "FALSE"}, "emit": False})
    return runs


def extra_scenarios(tier, seed):
    """Population (vectorised) methods: batched requests of 1-2 members; gradient-free single-vector methods without constraints."""
    rng = np.random.default_rng(seed)
    out = []
    n = 40 if tier == "quick" else 400
    for _ in range(n):
        L = int(rng.integers(2, 5))
        hist = []
        for _ in range(L):
            size = int(rng.integers(1, 3))
            hist.append({"op": "f" if rng.random() < 0.6 else "c", "xs": [int(i) for i in rng.integers(1, 4, size)]})
        out.append({"cls": "pop", "speculative": False, "split": bool(rng.integers(2)), "hist": hist, "nl": True, "lin": True})
    # the same optimizer object started a second time (every callable first, every speculative / split combination)
    for op in ("f", "g", "c", "J"):
        for speculative, split in ((False, False), (True, False), (False, True)):
            out.append({"restart": True, "op": op, "speculative": speculative, "split": split})
    for method in ("nelder-mead", "powell"):
        for _ in range(n // 4):
            hist = [{"op": "f", "x": int(i)} for i in rng.integers(1, 4, int(rng.integers(2, 5)))]
            out.append({"cls": "nograd", "method": method, "speculative": False, "split": bool(rng.integers(2)), "hist": hist,
                        "nl": False, "lin": False})
    for method, cls, nl, lin, bounds in (("slsqp", "grad", True, True, True), ("l-bfgs-b", "grad", False, False, True),
                                         ("tnc", "grad", False, False, True), ("bfgs", "grad", False, False, False),
                                         ("cobyla", "nograd", True, True, False), ("nelder-mead", "nograd", False, False, True),
                                         ("powell", "nograd", False, False, True), ("differential_evolution", "pop", True, True, True)):
        for spec in (False, True):
            for split in (False, True):
                out.append({"real": True, "method": method, "cls": cls, "nl": nl, "lin": lin, "bounds": bounds,
                            "speculative": spec, "split": split, "maxfun": 12 if tier == "quick" else 40})
    for _ in range(n):   # longer gradient-based histories than the exhaustive bound
        hist = [{"op": ["f", "g", "c", "J"][int(rng.integers(4))], "x": int(rng.integers(1, 4))} for _ in range(int(rng.integers(4, 8)))]
        out.append({"cls": "grad", "speculative": False, "split": bool(rng.integers(2)), "hist": hist})
    return out


CHECK = PropertyCheck(
    prop="C07", trace_module="Trace_C07", drive=drive, model_runs=model_runs, extra_scenarios=extra_scenarios,
    rule=("TLC explores ScipyBackend.tla for every request sequence of length 3 (thorough 4) over {f, g, c, J} x pool points (2; thorough 3) "
          "for gradient-based / gradient-free classes x speculative x split, checking value-at-requested-point, never-twice, no "
          "gradients for gradient-free methods and split clauses; every sequence is driven through the real plug-in by a scripted SciPy "
          "client, once with and once without speculative; the evaluator's functions identify the point a returned value belongs to. "
          "Random population (vectorised) and longer histories. Non-trivial: >=2 distinct points and a point requested again later."),
    assumptions=["pool points are separated by more than 1 (far beyond the plug-in's point tolerance)",
                 "a returned gradient/Jacobian is attributed to the pool point whose exact derivative is within 0.5",
                 "gradient-free and population alphabets contain only f and c"],
    trace_chunk=400,
)
