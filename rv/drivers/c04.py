"""C04 - CVaR filter weights realise the tail expectation over the worst fraction."""
from __future__ import annotations

import numpy as np

from ropt.config.enopt import EnOptConfig

from .. import core
from ..core import PropertyCheck, nums, num
from ..ropt_util import TableEvaluator, ensemble_evaluator, outcome_of, plugin_manager

INF = float("inf")


def build(sc: dict, lead: int = 0):
    """Scenario -> (config, objective matrix, constraint matrix, ranked column kind/index).
    lead: number of configured but unreferenced filters in front of the CVaR filter."""
    n = sc["n"]
    val = np.array(sc["val"], dtype=np.float64)
    o2 = np.array(sc["o2"], dtype=np.float64)
    failed = np.array(sc["failed"], dtype=bool)
    p = sc["k"] / sc["D"]
    if sc.get("ulp"):            # the neighbouring float below / above k/D: the tail is the same up to rounding
        p = float(np.nextafter(p, 0.0 if sc["ulp"] < 0 else 2.0))
        p = min(p, 1.0)
    decoy = np.array([(7 * i + 3) % 5 - 2 for i in range(n)], dtype=np.float64)   # another ordering
    cfg = {
        "variables": {"initial_values": [0.0, 0.0]},
        "realizations": {"weights": [1.0] * n, "realization_min_success": 1},
    }
    fl = sc["fl"]
    if sc["multi"]:
        # three objectives, the rank key uses a strict subset (0 and 2); the heavily weighted objective 1 must not matter
        objs = np.stack([val, 10.0 * decoy, o2], axis=1)
        cons = None
        cfg["objectives"] = {"weights": [1.0, 5.0, 2.0], "realization_filters": [0, -1, 0]}
        # (the order in which the ranked objectives are listed does not matter: every second scenario lists them descending)
        cfg["realization_filters"] = [{"method": "cvar-objective", "options": {"sort": [2, 0] if (n + sc["k"]) % 2 else [0, 2], "percentile": p}}]
        col = ("obj", 0)
    elif fl in ("obj", "objneg"):
        objs = np.stack([decoy, val], axis=1)
        cons = None
        cfg["objectives"] = {"weights": [1.0, 3.0] if fl == "obj" else [4.0, -1.0], "realization_filters": [-1, 0]}
        cfg["realization_filters"] = [{"method": "cvar-objective", "options": {"sort": [1], "percentile": p}}]
        col = ("obj", 1)
    else:
        t = float(sc["target"])
        lb, ub = {"le": (-INF, t), "ge": (t, INF), "eq": (t, t)}[fl]
        objs = decoy[:, None].copy()
        cons = np.stack([decoy, val], axis=1)
        # the constraint in front of the ranked one is two-sided (two normalised rows for one configured constraint)
        cfg["nonlinear_constraints"] = {"lower_bounds": [-5.0, lb], "upper_bounds": [0.0, ub],
                                        "realization_filters": [-1, 0]}
        cfg["realization_filters"] = [{"method": "cvar-constraint", "options": {"sort": 1, "percentile": p}}]
        col = ("con", 1)
    if lead:
        # ... and non-uniform configured realization weights with zeros: the CVaR weights do not depend on them
        cfg["realizations"]["weights"] = [1.0] if n == 1 else [float((i + lead) % 3) for i in range(n)] if n > 2 else [0.0, 2.0]
        unused = [{"method": "sort-objective", "options": {"sort": [0], "first": 0, "last": 0}},
                  {"method": "cvar-objective", "options": {"sort": [0], "percentile": 0.5}}][:lead]
        cfg["realization_filters"] = unused + cfg["realization_filters"]
        for sect in ("objectives", "nonlinear_constraints"):
            if sect in cfg and "realization_filters" in cfg[sect]:
                cfg[sect]["realization_filters"] = [i + lead if i >= 0 else i for i in cfg[sect]["realization_filters"]]
        # ... and ANOTHER filter in use behind the CVaR filter: the function that is not judged (the first unfiltered one) is
        # mapped to a second CVaR filter (the whole ensemble, on the first objective) that comes last in the list
        cfg["realization_filters"] = cfg["realization_filters"] + [{"method": "cvar-objective", "options": {"sort": [0], "percentile": 1.0}}]
        trailing = len(cfg["realization_filters"]) - 1
        if "nonlinear_constraints" in cfg:
            # constraint flavours: the trailing filter serves the objective, and the first filter of the list becomes a
            # constraint filter IN USE on the other constraint (the whole ensemble), which therefore runs before the judged one
            # (with two filters in front the objective is explicitly mapped to NO filter instead: only a constraint uses one)
            cfg["objectives"] = {"weights": [1.0], "realization_filters": [trailing if lead == 1 else -1]}
            cfg["realization_filters"][0] = {"method": "cvar-constraint", "options": {"sort": 0, "percentile": 1.0}}
            maps = list(cfg["nonlinear_constraints"]["realization_filters"])
            maps[0] = 0
            cfg["nonlinear_constraints"]["realization_filters"] = maps
        else:
            maps = list(cfg["objectives"]["realization_filters"])
            maps[maps.index(-1)] = trailing
            cfg["objectives"]["realization_filters"] = maps
    return EnOptConfig.model_validate(cfg), objs, cons, failed, col


class _WarmTable(TableEvaluator):
    """First call: every realization succeeds with other values; afterwards the prescribed table."""

    def __init__(self, objs, cons, clean_objs, clean_cons):
        super().__init__(objs, cons)
        self._table, self._clean = (self.objs, self.cons), (np.asarray(clean_objs), None if clean_cons is None else np.asarray(clean_cons))

    def __call__(self, variables, context):
        self.objs, self.cons = self._clean if not self.calls else self._table
        res = super().__call__(variables, context)
        # entries flagged inactive are not computed (zeros are returned for them; a failure stays a failure)
        real = context.realizations
        if context.active_objectives is not None:
            res.objectives[~context.active_objectives[:, real].T & ~np.isnan(res.objectives)] = 0.0
        if context.active_constraints is not None and res.constraints is not None:
            res.constraints[~context.active_constraints[:, real].T & ~np.isnan(res.constraints)] = 0.0
        return res


class _PertFail(TableEvaluator):
    """The perturbed evaluations of the realizations of one parity fail (NaN); the unperturbed rows are the table."""

    def __init__(self, objs, cons, parity):
        super().__init__(objs, cons)
        self.parity = parity

    def __call__(self, variables, context):
        res = super().__call__(variables, context)
        if context.perturbations is not None:
            bad = (context.perturbations >= 0) & (context.realizations % 2 == self.parity)
            res.objectives[bad, :] = np.nan
            if res.constraints is not None:
                res.constraints[bad, :] = np.nan
        return res


def drive(sc: dict):
    config, objs, cons, failed, col = build(sc)
    base = {k: sc[k] for k in ("n", "val", "o2", "failed", "k", "D", "fl", "multi", "target")}
    trace = []
    # -- direct: the filter object, fed matrices as the evaluator hands them over (failed rows all-NaN)
    o = objs.copy(); o[failed, :] = np.nan
    c = None if cons is None else cons.copy()
    if c is not None:
        c[failed, :] = np.nan
    flt = plugin_manager().get_plugin("realization_filter", method=config.realization_filters[0].method).create(config, 0)
    # the same filter object has been used before, on an ensemble without failures and in reverse order
    outcome_of(lambda: flt.get_realization_weights(-objs[::-1].copy(), None if cons is None else -cons[::-1].copy()))
    w, outcome = outcome_of(lambda: flt.get_realization_weights(o, c))
    trace.append({**base, "ev": "CVaR", "via": "direct", "outcome": outcome,
                  "w": nums(w) if w is not None else [], "value": num(None)})
    # -- end to end: NaN in one column only (objective or constraint), through the ensemble evaluator
    o = objs.copy(); c = None if cons is None else cons.copy()
    for i in np.where(failed)[0]:
        if c is not None and i % 2 == 0:
            c[i, 0] = np.nan
        else:
            o[i, 0] = np.nan
    ev = TableEvaluator(o, c)
    res, outcome = outcome_of(lambda: ensemble_evaluator(config, ev).calculate(
        np.zeros(2), compute_functions=True, compute_gradients=False))
    w = value = None
    if res is not None:
        r = res[0]
        rows = r.realizations.objective_weights if col[0] == "obj" else r.realizations.constraint_weights
        w = None if rows is None else rows[col[1]]
        if r.functions is None:
            outcome = "nofunctions"
        else:
            value = (r.functions.objectives if col[0] == "obj" else r.functions.constraints)[col[1]]
    trace.append({**base, "ev": "CVaR", "via": "e2e", "outcome": outcome,
                  "w": nums(w) if w is not None else [], "value": num(value)})
    # -- the same, as the second evaluation of one evaluator object (the first one without failures, other values),
    #    with configured but unreferenced filters in front of the CVaR filter and zeros among the configured weights
    lead = 1 + (sc["n"] + sc["k"]) % 2
    config2, *_ = build(sc, lead=lead)
    ev2 = _WarmTable(o, c, -objs[::-1].copy(), None if cons is None else -cons[::-1].copy())
    ee = ensemble_evaluator(config2, ev2)
    outcome_of(lambda: ee.calculate(np.ones(2), compute_functions=True, compute_gradients=False))
    res, outcome = outcome_of(lambda: ee.calculate(np.zeros(2), compute_functions=True, compute_gradients=False))
    w = value = None
    if res is not None:
        r = res[0]
        rows = r.realizations.objective_weights if col[0] == "obj" else r.realizations.constraint_weights
        w = None if rows is None else rows[col[1]]
        if r.functions is None:
            outcome = "nofunctions"
        else:
            value = (r.functions.objectives if col[0] == "obj" else r.functions.constraints)[col[1]]
    trace.append({**base, "ev": "CVaR", "via": "e2e", "outcome": outcome, "second_use": True, "unused_filters_in_front": lead,
                  "w": nums(w) if w is not None else [], "value": num(value)})
    # -- functions at one point, then a gradient-only request at a point one part per million away: nothing computed for the
    #    first point (there the members rank in reverse) may serve the second
    ev4 = _WarmTable(o, c, -objs[::-1].copy(), None if cons is None else -cons[::-1].copy())
    ee4 = ensemble_evaluator(config, ev4)
    outcome_of(lambda: ee4.calculate(np.ones(2), compute_functions=True, compute_gradients=False))
    res, outcome = outcome_of(lambda: ee4.calculate(np.ones(2) * (1.0 + 1e-6), compute_functions=False, compute_gradients=True))
    w = value = None
    if res is not None:
        from ropt.results import FunctionResults as _FR
        fr = next((x for x in res if isinstance(x, _FR)), None)
        r = res[-1]                                             # the gradient result: the weights in force for the gradient
        rows = r.realizations.objective_weights if col[0] == "obj" else r.realizations.constraint_weights
        w = None if rows is None else rows[col[1]]
        if fr is None or fr.functions is None:
            outcome = "nofunctions"
        else:
            value = (fr.functions.objectives if col[0] == "obj" else fr.functions.constraints)[col[1]]
    trace.append({**base, "ev": "CVaR", "via": "e2e", "outcome": outcome, "gradient_at_a_neighbouring_point": True,
                  "w": nums(w) if w is not None else [], "value": num(value)})
    # -- the BEST successful member is infinitely good (it lies outside the tail, so nothing that is reported changes)
    succ = [i for i in range(sc["n"]) if not sc["failed"][i]]
    fl_ = sc["fl"]
    # (one whole member lies between the tail and the best one: at p*n = n-1 the member just outside the tail may carry a weight
    #  of one rounding error instead of exactly zero, which an infinite value would blow up)
    if len(succ) >= 3 and fl_ != "eq" and sc["k"] * len(succ) <= sc["D"] * (len(succ) - 2) and not sc.get("ulp"):
        v = np.array(sc["val"], dtype=np.float64)
        o2 = np.array(sc["o2"], dtype=np.float64)
        key = v + 2.0 * o2 if sc["multi"] else (-v if fl_ == "objneg" else v)
        good_low = fl_ in ("obj", "le", "objneg") or sc["multi"]          # worst = largest key (for "ge": smallest)
        best = min(succ, key=lambda i: key[i]) if good_low else max(succ, key=lambda i: key[i])
        if sum(1 for i in succ if key[i] == key[best]) == 1:
            o5 = o.copy(); c5 = None if c is None else c.copy()
            # (in the driver's columns the judged value sits in objective/constraint column col[1]; "objneg" negates nothing
            #  here: its evaluator values are val and the weight is negative, so "good" is large there)
            tgt = o5 if col[0] == "obj" else c5
            inf = -np.inf if good_low else np.inf
            if fl_ == "objneg":
                inf = np.inf
            tgt[best, col[1] if not sc["multi"] else 0] = inf
            res, outcome = outcome_of(lambda: ensemble_evaluator(config, TableEvaluator(o5, c5)).calculate(
                np.zeros(2), compute_functions=True, compute_gradients=False))
            w = value = None
            if res is not None:
                r = res[0]
                rows = r.realizations.objective_weights if col[0] == "obj" else r.realizations.constraint_weights
                w = None if rows is None else rows[col[1]]
                if r.functions is None:
                    outcome = "nofunctions"
                else:
                    value = (r.functions.objectives if col[0] == "obj" else r.functions.constraints)[col[1]]
            trace.append({**base, "ev": "CVaR", "via": "e2e", "outcome": outcome, "best_member_infinitely_good": True,
                          "w": nums(w) if w is not None else [], "value": num(value)})
    # -- one combined functions + gradient evaluation in which the perturbed evaluations of every other realization fail:
    #    a realization whose FUNCTION evaluation succeeded stays a successful member for the filter and for the reported value
    ev3 = _PertFail(o, c, parity=(sc["n"] + sc["k"]) % 2)
    res, outcome = outcome_of(lambda: ensemble_evaluator(config, ev3).calculate(
        np.zeros(2), compute_functions=True, compute_gradients=True))
    w = value = None
    if res is not None:
        r = res[0]
        rows = r.realizations.objective_weights if col[0] == "obj" else r.realizations.constraint_weights
        w = None if rows is None else rows[col[1]]
        if getattr(r, "functions", None) is None:
            outcome = "nofunctions"
        else:
            value = (r.functions.objectives if col[0] == "obj" else r.functions.constraints)[col[1]]
    trace.append({**base, "ev": "CVaR", "via": "e2e", "outcome": outcome, "combined_with_failing_perturbations": True,
                  "w": nums(w) if w is not None else [], "value": num(value)})
    nsucc = int((~failed).sum())
    kn = sc["k"] * nsucc
    feats = {
        "nontrivial": bool(0 < sc["k"] < sc["D"] and nsucc >= 2),
        "key": f"{sc['fl']}|{sc['multi']}|{sc['val']}|{sc['o2']}|{sc['failed']}|{sc['k']}/{sc['D']}",
        "fl": sc["fl"], "all_failed": nsucc == 0,
        "pn_integer": nsucc > 0 and kn % sc["D"] == 0,
    }
    return trace, feats


def model_runs(tier: str):
    if tier == "quick":
        return [{"module": "MC_C04", "constants": {"NMax": 4, "Family": '"perm"'}},
                {"module": "MC_C04", "constants": {"NMax": 3, "Family": '"multi"'}}]
    # (n = 6: 3 million behaviours, each replayed through six evaluations - every third one is replayed, all are model-checked)
    return [{"module": "MC_C04", "constants": {"NMax": 6, "Family": '"perm"'}, "heap": "6g", "stride": 3},
            {"module": "MC_C04", "constants": {"NMax": 4, "Family": '"multi"'}}]


def extra_scenarios(tier: str, seed: int):
    """Percentiles k/D for every D <= 20 as Python floats (p*n within an ulp of an integer), n <= 20;
    plus random larger ensembles."""
    rng = np.random.default_rng(seed)
    out = []
    ns = range(1, 21) if tier == "thorough" else (1, 2, 3, 5, 7, 10, 12, 20)
    for D in range(1, 21):
        for k in range(1, D + 1):
            for n in ns:
                perm = rng.permutation(n) + 1
                failed = [False] * n
                out.append({"n": n, "val": [int(v) - 2 for v in perm], "o2": [0] * n, "failed": failed,
                            "k": k, "D": D, "fl": ["obj", "le", "ge", "eq", "objneg"][(k + n) % 5], "multi": False, "target": 1})
    # percentiles whose float product with n falls a hair below / above an integer: the floats next to k/n, and grids
    # k/n for sizes whose products are inexact
    for n in ((2, 3, 4, 5, 6, 7) if tier == "quick" else range(2, 13)):
        for k in range(1, n + 1):
            for ulp in (-1, 1):
                perm = rng.permutation(n) + 1
                out.append({"n": n, "val": [int(v) - 2 for v in perm], "o2": [0] * n, "failed": [False] * n, "k": k, "D": n, "ulp": ulp,
                            "fl": ["obj", "le", "ge", "eq", "objneg"][(k + n) % 5], "multi": False, "target": 1})
    for n in ((22, 47, 49) if tier == "quick" else (22, 23, 29, 41, 47, 49, 53, 100)):
        for k in range(1, n + 1):
            perm = rng.permutation(n) + 1
            out.append({"n": n, "val": [int(v) - 2 for v in perm], "o2": [0] * n, "failed": [False] * n, "k": k, "D": n,
                        "fl": ["obj", "le", "ge", "eq", "objneg"][(k + n) % 5], "multi": False, "target": 1})
    reps = 300 if tier == "quick" else 3000
    for _ in range(reps):
        n = int(rng.integers(5, 13))
        D = int(rng.integers(2, 25))
        out.append({"n": n, "val": [int(v) for v in rng.integers(-6, 7, n)], "o2": [0] * n,
                    "failed": [bool(b) for b in rng.random(n) < 0.25], "k": int(rng.integers(1, D + 1)), "D": D,
                    "fl": ["obj", "le", "ge", "eq", "objneg"][int(rng.integers(5))], "multi": False, "target": 1})
    return out


CHECK = PropertyCheck(
    prop="C04", trace_module="Trace_C04", drive=drive, model_runs=model_runs, extra_scenarios=extra_scenarios,
    rule=("TLC enumerates every (n, permutation of the ranked values, failure mask, percentile k/12, flavour) and a "
          "two-objective family; extra: every k/D (D<=20) x n as floats and random larger ensembles with ties. "
          "Non-trivial: 0<p<1 and >=2 successful members; distinct by (flavour, values, mask, percentile)."),
    assumptions=["float weights are projected to fractions with denominator <= 1e5 and must be within 1e-7",
                 "ties in the rank key: any order among tied members accepted"],
)
