"""C19 - plug-in lookup is deterministic, case-insensitive and side-effect free."""
from __future__ import annotations

from ropt.exceptions import ConfigError
from ropt.plugins import PluginManager
from ropt.plugins.optimizer.base import OptimizerPlugin

from ..core import PropertyCheck

METH = {"a": "rv-a", "b": "rv-b", "c": "rv-c", "s": "slsqp", "t": "scipy/slsqp", "d": "default", "q": "rv-Q", "k": "rv-q"}       # spec method -> real method name
SETS = {1: {"a", "b", "s", "k"}, 2: {"b", "c", "q"}, 3: {"a", "c"}}
EXACT = {"rv-Q", "rv-q"}          # method names matched case-sensitively by the test plug-ins
PTYPE = "optimizer"


class TestPlugin(OptimizerPlugin):
    def __init__(self, i):
        self.i = i
        self.names = {METH[m] for m in SETS[i]}

    def create(self, config, optimizer_callback):  # pragma: no cover - never created
        raise NotImplementedError

    def is_supported(self, method):
        # like the external optimizer, a plug-in may accept method strings that contain a slash: the first test plug-in
        # takes "q/rv-a" literally ("q" is never the name of a registered plug-in)
        if self.i == 1 and method.lower() == "q/rv-a":
            return True
        if method in EXACT or method.lower() in {e.lower() for e in EXACT}:
            return method in self.names
        return method.lower() in self.names

    @property
    def allows_discovery(self):
        return self.i != 3


def ident(plugin, builtin_ids):
    if isinstance(plugin, TestPlugin):
        return f"P{plugin.i}"
    return builtin_ids.get(id(plugin), "unknown")


def call(fn, builtin_ids):
    try:
        r = fn()
    except ConfigError:
        return "ConfigError"
    except Exception as exc:  # noqa: BLE001
        return f"exc:{type(exc).__name__}"
    if r is None:
        return "ok"
    if isinstance(r, bool):
        return "true" if r else "false"
    return ident(r, builtin_ids)


# names beyond ASCII: letters whose case-folded form is not their lower-case form (sharp s, final sigma); the traces carry
# the tokens, the managers see the real spellings - two case variants each with the same lower-case form
# ("m": a plug-in NAME spelled like a method that discoverable plug-ins support - nobody is registered under it)
REAL = {"m": "rv-a", "w": "Ma\u00df", "W": "MA\u00df", "v": "\u03bf\u03b4\u03bf\u03c2", "V": "\u039f\u0394\u039f\u03a3"}
TOKEN = {real.lower(): tok.lower() for tok, real in REAL.items() if tok != "m"}
assert all(REAL[t_.upper()].lower() == REAL[t_].lower() for t_ in ("w", "v"))


TYPES = ["optimizer", "sampler", "realization_filter", "function_estimator", "plan_handler", "plan_step"]


def drive(sc):
    import zlib
    # every plug-in type: the type used by a history is drawn from the history itself
    idx = zlib.crc32(str(sc["calls"]).encode()) % len(TYPES)
    ptype = sc.get("ptype", TYPES[idx])
    mgrs = [PluginManager(), PluginManager()]
    # each manager has already registered a plug-in of another type (registrations of one type, or on one manager,
    # never show up under another type or on another manager)
    other = TYPES[(TYPES.index(ptype) + 1 + idx % 5) % len(TYPES)]
    mgrs[0].add_plugin(other, "rvother-first", TestPlugin(1))
    mgrs[1].add_plugin(other, "rvother-second", TestPlugin(2), prioritize=True)
    plugs = {(m, i): TestPlugin(i) for m in (0, 1) for i in (1, 2, 3)}
    builtin_ids, regs = {}, []
    first_builtin = ""
    for mgr in (PluginManager(), PluginManager()):      # the initial registry is read from OTHER managers: the managers under
        entries = []                                     # test are not touched before the history starts
        for name, plugin in mgr.plugins(ptype):
            first_builtin = first_builtin or name
            builtin_ids[id(plugin)] = f"B:{name}"
            entries.append({"name": name, "id": f"B:{name}", "discover": bool(plugin.allows_discovery),
                            "methods": [k for k, real in METH.items() if plugin.is_supported(real)]})
        regs.append(entries)
    trace = [{"ev": "Init", "regs": regs}]
    blank = {"raw": "", "p": 1, "prio": False, "plug": "", "meth": "", "names": [], "rawl": "", "plugl": ""}
    for c in sc["calls"]:
        if c.get("plug") in ("b1", "b2"):          # the bounded instance's built-ins b1/b2 are the installed scipy/external plug-ins
            c = dict(c, plug={"b1": "scipy", "b2": "External"}[c["plug"]])
        mgr = mgrs[c["m"] - 1]
        e = {"ev": "Call", **blank, **{k: v for k, v in c.items() if k != "ret"}}
        e["rawl"], e["plugl"] = e["raw"].lower(), e["plug"].lower()      # the lower-case forms the specification reasons about
        if c["op"] == "add":
            raw = c["raw"]
            if raw == "b1":                         # the name of the first built-in plug-in of this type, in capitals
                raw = first_builtin.upper()
                e["raw"], e["rawl"] = raw, first_builtin.lower()
            e["ret"] = call(lambda: mgr.add_plugin(ptype, REAL.get(raw, raw), plugs[(c["m"] - 1, c["p"])], prioritize=c["prio"]), builtin_ids)
        else:
            method = (REAL.get(c["plug"], c["plug"]) + "/" if c["plug"] else "") + METH[c["meth"]]
            if c.get("upper"):
                method = method.upper() if c["plug"] else method
            if c["op"] == "get":
                e["ret"] = call(lambda: mgr.get_plugin(ptype, method), builtin_ids)
            else:
                e["ret"] = call(lambda: mgr.is_supported(ptype, method), builtin_ids)
        trace.append(e)
    def listing(mgr, kind):
        try:
            return [TOKEN.get(name, name) for name, _ in mgr.plugins(kind)]
        except Exception as exc:  # noqa: BLE001 - an exception while listing is an observation, not a harness failure
            return [f"<{type(exc).__name__} while listing>"]
    for m in (1, 2):
        trace.append({"ev": "Call", **blank, "op": "list", "m": m, "ret": "ok", "names": listing(mgrs[m - 1], ptype)})
    # the other type still holds exactly what each manager registered there
    leaked = [n for m, own in ((0, "rvother-first"), (1, "rvother-second"))
              for n in listing(mgrs[m], other) if n.startswith("rvother") and n != own]
    if leaked or any(n in ("x", "y", "z") or n.startswith("<") for m in (0, 1) for n in listing(mgrs[m], other)):
        trace.append({"ev": "Call", **blank, "op": "list", "m": 1, "ret": "ok", "names": ["<registration leaked to another type or manager>"]})
    calls = sc["calls"]
    nontrivial = any(a["op"] == "add" and any(b["op"] == "get" and b["plug"] == "" and b["m"] == a["m"] and b["meth"] in SETS[a["p"]]
                                                for b in calls[i + 1:]) for i, a in enumerate(calls))
    return trace, {"nontrivial": bool(nontrivial), "key": str(calls)}


def model_runs(tier):
    if tier == "quick":
        return [{"module": "MC_C19", "constants": {"L": 3}, "heap": "6g", "min_emitted": 85000}]
    return [{"module": "MC_C19", "constants": {"L": 3}, "heap": "6g", "min_emitted": 85000},
            {"module": "MC_C19", "constants": {"L": 4, "Emit": "FALSE"}, "workers": 16, "heap": "12g", "emit": False}]


def extra_scenarios(tier, seed):
    """Longer random histories (spec -> code is exhaustive only up to L)."""
    import random
    rng = random.Random(seed)
    adds = [("x", 1), ("X", 2), ("y", 2), ("z", 3), ("Z", 1), ("Y", 3), ("w", 1), ("W", 2), ("V", 2), ("v", 1)]
    reqs = [("", "a"), ("", "b"), ("", "c"), ("", "s"), ("", "d"), ("external", "d"), ("", "q"), ("", "k"), ("y", "q"), ("x", "k"), ("x", "q"), ("X", "a"), ("x", "c"), ("y", "b"), ("z", "a"), ("external", "s"), ("external", "t"), ("External", "t"),
            ("q", "a"), ("Z", "c"), ("scipy", "s"), ("SciPy", "s"), ("w", "a"), ("W", "b"), ("W", "a"), ("v", "b"), ("V", "a"), ("v", "a"), ("x", "d"), ("y", "d"), ("Z", "d"), ("m", "b"), ("m", "a"), ("m", "c")]
    out = []
    for _ in range(2000 if tier == "quick" else 20000):
        calls = []
        for _ in range(rng.randint(4, 8)):
            k = rng.random()
            m = rng.randint(1, 2)
            if k < 0.4:
                raw, p = rng.choice(adds)
                calls.append({"op": "add", "m": m, "raw": raw, "p": p, "prio": rng.random() < 0.5})
            else:
                plug, meth = rng.choice(reqs)
                calls.append({"op": "get" if k < 0.8 else "sup", "m": m, "plug": plug, "meth": meth})
        out.append({"calls": calls})
    return out


CHECK = PropertyCheck(
    prop="C19", trace_module="Trace_C19", drive=drive, model_runs=model_runs, extra_scenarios=extra_scenarios,
    rule=("TLC enumerates every call sequence of length 3 (thorough: model-checks length 4) over add_plugin (normal/prioritized, two "
          "case variants; the plug-in type of a history is one of the six types, each manager has registered another type before) / get_plugin / is_supported on two managers with three test plug-ins (overlapping methods, one "
          "non-discoverable) on top of the installed built-ins; random histories of length 4-8. Each history is executed on real "
          "PluginManager objects and replayed against PluginManager.tla. Non-trivial: an add followed by a bare-name lookup the added "
          "plug-in could answer."),
    assumptions=["the initial registry is whatever the installation provides (logged as the first event)",
                 "built-in and test plug-ins lower-case method names in is_supported"],
    trace_chunk=6000,
)
