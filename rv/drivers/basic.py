"""BasicOptimizer protocol against spec/Basic.tla: scripted optimizer, scripted abort callback, one to three run() calls."""
from __future__ import annotations

import os
import sys
import tempfile

import numpy as np

from ropt.evaluator import EvaluatorResult
from ropt.plan import BasicOptimizer
from ropt.results import FunctionResults

from ..ropt_util import ScriptPlugin, exit_name

P = 2


def _config(sc, outdir=None):
    script = [{"f": it["kind"] in ("F", "FG"), "g": it["kind"] in ("G", "FG"),
               "x": [float(it["obj"]), -1.0 if it["feas"] else 1.0, 1.0 if it["fail"] else 0.0]} for it in sc["script"]]
    cfg = {"variables": {"initial_values": [0.0, 0.0, 0.0]},
           "optimizer": {"method": "rvscript/script", "options": {"script": script}},
           "nonlinear_constraints": {"lower_bounds": [-np.inf], "upper_bounds": [0.0]},
           "gradient": {"number_of_perturbations": P, "perturbation_magnitudes": 0.001}}
    if _bound_only(sc):
        # the same infeasibility through a variable bound: no constraints of any kind, the second variable must stay <= 0
        del cfg["nonlinear_constraints"]
        cfg["variables"]["upper_bounds"] = [np.inf, 0.0, np.inf]
    if sc["maxfun"]:
        cfg["optimizer"]["max_functions"] = sc["maxfun"]
    if sc.get("redir"):
        cfg["optimizer"].update({"output_dir": outdir, "stdout": "optimizer.out", "stderr": "optimizer.err"})
    return cfg


def _bound_only(sc):
    return (len(sc["script"]) + sc["maxfun"] + sc["runs"] + sc["nR"]) % 2 == 1


class _Sink:
    """Routes file descriptor 1 of this process into a scratch file for the duration of one scenario and tells afterwards
    where each numbered marker went: the process's own standard output ("orig") or the optimizer's file ("file")."""

    def __init__(self, outdir):
        self.outdir, self.seen_file = outdir, set()
        self.capture = os.path.join(outdir, "own.out")

    def __enter__(self):
        sys.stdout.flush()
        self.saved = os.dup(1)
        self.fd = os.open(self.capture, os.O_WRONLY | os.O_CREAT | os.O_APPEND)
        os.dup2(self.fd, 1)
        return self

    def mark(self, idx):
        os.write(1, f"@{idx}@\n".encode())

    def collect(self):          # the optimizer's file is rewritten from its start by every run
        path = os.path.join(self.outdir, "optimizer.out")
        if os.path.exists(path):
            text = open(path).read()
            self.seen_file |= {int(tok) for tok in text.split("@") if tok.strip().isdigit()}

    def __exit__(self, *exc):
        os.dup2(self.saved, 1)
        os.close(self.saved)
        os.close(self.fd)
        self.collect()
        text = open(self.capture).read()
        self.seen_own = {int(tok) for tok in text.split("@") if tok.strip().isdigit()}

    def dest(self, idx):
        a, b = idx in self.seen_own, idx in self.seen_file
        return "both" if a and b else "orig" if a else "file" if b else "lost"


def drive(sc):
    sc = sc["cfg"] if "cfg" in sc else sc
    sc = {"redir": False, "tolnone": False, **{k: v for k, v in sc.items() if k != "attached"}}
    with tempfile.TemporaryDirectory(prefix="rvbasic") as outdir:
        sink = _Sink(outdir)
        with sink:
            log = _run(sc, sink, outdir)
        for i, e in enumerate(log):
            e["dest"] = sink.dest(i)
    trace = [dict(sc, bound_only=_bound_only(sc))] + log
    key = [sc["script"], sc["abortAt"], sc["maxfun"], sc["runs"], sc["nA"], sc["nR"], sc["lateR"], sc["redir"], sc["tolnone"]]
    return trace, {"nontrivial": len(sc["script"]) > 0, "key": key, "runs": sc["runs"], "events": len(log)}


def _run(sc, sink, outdir):
    log = []

    def ev(name, n=0, obj=-1, kinds=(), s="", **kw):
        sink.mark(len(log))
        log.append({"ev": name, "n": n, "obj": obj, "kinds": list(kinds), "s": s, **kw})
    state = {"acalls": 0}

    def evaluator(variables, context):
        ev("Eval", n=int(variables.shape[0]), obj=int(round(float(variables[0, 0]))))
        objs = variables[:, :1].copy()
        objs[variables[:, 2] > 0.5] = np.nan
        return EvaluatorResult(objectives=objs, constraints=None if _bound_only(sc) else variables[:, 1:2].copy())

    def abort_cb():
        state["acalls"] += 1
        ev("AbortCb", n=state["acalls"])
        return state["acalls"] == sc["abortAt"]

    def make_res_cb():
        def res_cb(results, transformed=()):
            kinds = ["F" if isinstance(r, FunctionResults) else "G" for r in results]
            obj = -1
            for r in results:
                if isinstance(r, FunctionResults) and r.functions is not None:
                    obj = int(round(float(r.functions.weighted_objective)))
            ev("ResCb", n=len(transformed), obj=obj, kinds=kinds)
        return res_cb

    from ..ropt_util import plugin_manager  # noqa: F401  (registers nothing; the script plugin is found by entry name below)
    opt = (BasicOptimizer(_config(sc, outdir), evaluator, constraint_tolerance=None) if sc["tolnone"]
           else BasicOptimizer(_config(sc, outdir), evaluator))
    opt._optimizer_context.plugin_manager.add_plugin("optimizer", "rvscript", ScriptPlugin())  # noqa: SLF001
    for _ in range(sc["nA"]):
        opt.set_abort_callback(abort_cb)
    for i in range(sc["nR"]):
        opt.set_results_callback(make_res_cb(), transformed=bool(i % 2))
    for run in range(1, sc["runs"] + 1):
        if run == 2:
            for _ in range(sc["lateR"]):
                opt.set_results_callback(make_res_cb())
        ScriptPlugin.reset([], on_request=lambda number: ev("Opt", n=number))
        fds_before = len(os.listdir("/proc/self/fd"))
        try:
            opt.run()
            sink.collect()
        except Exception as exc:  # noqa: BLE001 - the escaping exception is the observation
            ev("Exc", s=type(exc).__name__)
            break
        res = opt.results
        best = -1 if res is None or res.functions is None else int(round(float(res.functions.weighted_objective)))
        ok = (res is None and opt.variables is None) or (
            res is not None and opt.variables is not None and np.array_equal(opt.variables, res.evaluations.variables)
            and int(round(float(opt.variables[0]))) == best)
        ev("Done", n=run, obj=best, s=exit_name(opt.exit_code), vars=int(ok), open=len(os.listdir("/proc/self/fd")) - fds_before)
    ScriptPlugin.on_request = None
    return log


def model_runs(tier, size="full"):
    if tier == "thorough" and size == "medium":
        return [{"module": "MC_Basic", "cfg": "MC_Basic", "workers": 12, "stride": 1,
                 "constants": {"MaxK": "2", "Objs": "{1, 2}", "MaxRuns": "2", "MaxCb": "1"}},
                {"module": "MC_Basic", "cfg": "MC_Basic", "workers": 4, "expect_violation": "E_ExactlyOncePerEvaluation",
                 "constants": {"MaxK": "1", "Objs": "{1}", "MaxRuns": "2", "MaxCb": "1", "Reregister": "TRUE", "Emit": "FALSE"}}]
    if tier == "quick":
        # the model is explored exhaustively; of the longer single-run behaviours every 5th (offset by VERIF_SEED) is replayed
        return [{"module": "MC_Basic", "cfg": "MC_Basic", "workers": 8, "stride": 5,
                 "constants": {"MaxK": "2", "Objs": "{1, 2}", "MaxRuns": "1", "MaxCb": "1", "MaxFun": "1"}},
                {"module": "MC_Basic", "cfg": "MC_Basic", "workers": 8, "stride": 1,
                 "constants": {"MaxK": "1", "Objs": "{1, 2}", "MaxRuns": "2", "MaxCb": "1"}},
                {"module": "MC_Basic", "cfg": "MC_Basic", "workers": 4, "expect_violation": "E_ExactlyOncePerEvaluation",
                 "constants": {"MaxK": "1", "Objs": "{1}", "MaxRuns": "2", "MaxCb": "1", "Reregister": "TRUE", "Emit": "FALSE"}}]
    return [{"module": "MC_Basic", "cfg": "MC_Basic", "workers": 12, "stride": 1,
             "constants": {"MaxK": "2", "Objs": "{1, 2}", "MaxRuns": "2", "MaxCb": "2"}},
            {"module": "MC_Basic", "cfg": "MC_Basic", "workers": 12, "stride": 5, "heap": "6g",
             "constants": {"MaxK": "3", "Objs": "{1, 2}", "MaxRuns": "1", "MaxCb": "1"}},
            {"module": "MC_Basic", "cfg": "MC_Basic", "workers": 12, "stride": 1,
             "constants": {"MaxK": "1", "Objs": "{1, 2, 3}", "MaxRuns": "3", "MaxCb": "2"}},
            {"module": "MC_Basic", "cfg": "MC_Basic", "workers": 4, "expect_violation": "E_ExactlyOncePerEvaluation",
             "constants": {"MaxK": "1", "Objs": "{1}", "MaxRuns": "2", "MaxCb": "1", "Reregister": "TRUE", "Emit": "FALSE"}}]


ATTACH = {"spec": "Basic.tla", "trace_module": "Trace_Basic", "model_runs": model_runs, "chunk": 1500}
# clause prefixes by owning property
C12_CLAUSES = ("basic_optimizer_does_not_report", "basic_optimizer_reports_an_infeasible", "basic_variables_are_not")
C13_CLAUSES = ("basic_optimizer_reports_an_infeasible",)
C14_CLAUSES = ("basic_exit_code", "run_return_expected")
C15_CLAUSES = ("abort_callback", "results_callback", "evaluator_call", "evaluator_rows", "evaluator_called", "trace_ends", "events_after",
               "exception", "optimizer_request", "output_", "optimizer_output", "basic_exit_code_expected_abort")
