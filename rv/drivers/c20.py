"""C20 - external-process runs equal in-process runs; process death is never success."""
from __future__ import annotations

import hashlib
import os
import signal
import time
from pathlib import Path

import numpy as np

from ropt.evaluator import EvaluatorResult
from ropt.plan import OptimizerContext, Plan

from ..core import PropertyCheck
from ..ropt_util import exit_name, outcome_of

BIN = str(Path(__file__).resolve().parent.parent / "bin")
DEADLINE = 120.0
INF = float("inf")


def live_children():
    """Optimizer processes that are still running (not zombies) and are our children."""
    me = os.getpid()
    out = []
    for pid in os.listdir("/proc"):
        if not pid.isdigit():
            continue
        try:
            stat = Path(f"/proc/{pid}/stat").read_text()
            cmd = Path(f"/proc/{pid}/cmdline").read_bytes()
        except OSError:
            continue
        fields = stat.rsplit(")", 1)[1].split()
        state, ppid = fields[0], int(fields[1])
        if ppid == me and b"ropt_plugin_optimizer" in cmd and state != "Z":
            out.append(int(pid))
    return out


def config(sc, external):
    method = sc["method"]
    cfg = {"variables": {"initial_values": [0.5, 1.5, -0.5], "lower_bounds": [-2.0] * 3, "upper_bounds": [2.0] * 3},
           "realizations": {"weights": [1.0, 2.0]},
           "optimizer": {"method": ("external/" if external else "") + method, "tolerance": 1e-5},
           "gradient": {"number_of_perturbations": 3, "perturbation_magnitudes": 0.01}}
    if sc.get("maxfun"):
        cfg["optimizer"]["max_functions"] = sc["maxfun"]
    if "minsucc" in sc:
        cfg["realizations"]["realization_min_success"] = sc["minsucc"]
    if sc.get("mask"):
        cfg["variables"]["mask"] = [True, False, True]
    if sc.get("con"):
        cfg["nonlinear_constraints"] = {"lower_bounds": [-INF], "upper_bounds": [1.0]}
        cfg["linear_constraints"] = {"coefficients": [[1.0, 0.0, 1.0]], "lower_bounds": [-INF], "upper_bounds": [1.5]}
    if sc.get("emptylin"):         # a linear-constraints section without rows (legal: nothing is constrained)
        cfg["linear_constraints"] = {"coefficients": np.zeros((0, 3)), "lower_bounds": [], "upper_bounds": []}
    if sc.get("rel"):
        cfg["gradient"].update({"perturbation_types": 2, "perturbation_magnitudes": 0.01})
    if method == "cobyla":
        cfg["variables"] = {"initial_values": [0.5, 1.5, -0.5]}
        if sc.get("mask"):
            cfg["variables"]["mask"] = [True, False, True]
    if method == "differential_evolution":
        cfg["optimizer"]["options"] = {"seed": 3, "popsize": 2, "maxiter": 2}
    if sc.get("nvars"):            # many variables: every message is larger than the buffer of the pipes
        n = int(sc["nvars"])
        cfg["variables"] = {"initial_values": [0.5, 1.5, -0.5] + [0.25] * (n - 3)}
    if sc.get("redir"):            # the back-end's output redirected to a file (paths inside the configuration)
        import tempfile
        cfg["optimizer"].update({"output_dir": tempfile.mkdtemp(prefix="rvc20"), "stdout": "optimizer.out"})
    if sc.get("padto"):            # the configuration message is exactly `padto` bytes long on the wire (a piece boundary of the
        cfg["optimizer"]["options"] = {"pad": ""}       # 64 KiB pipe then falls inside the end-of-message marker)
        cfg["variables"] = {"initial_values": [0.5, 1.5, -0.5] + [0.25] * 1500}
        if external:
            import json as _json
            from ropt.config.enopt import EnOptConfig

            def wire(c):
                dump = EnOptConfig.model_validate(c).model_dump(round_trip=True)
                return len(_json.dumps(dump, default=lambda o: o.tolist() if hasattr(o, "tolist") else str(o))) + len("\n--READY--\n")
            cfg["optimizer"]["options"]["pad"] = "x" * max(0, int(sc["padto"]) - wire(cfg))
            assert wire(cfg) == int(sc["padto"]), (wire(cfg), sc["padto"])
        else:
            cfg["optimizer"]["options"]["pad"] = "x" * 100
    if sc.get("integer"):          # integer variables: the back-end must be told about them in the child as well
        cfg["variables"]["types"] = [2, 1, 2]
    if sc.get("rich"):             # every optional section is set to something that changes the run when it gets lost
        cfg["realizations"] = {"weights": [1.0, 2.0, 3.0, 1.0], "realization_min_success": 2}
        cfg["objectives"] = {"weights": [0.75, 0.25], "realization_filters": [0, -1], "function_estimators": [0, 1]}
        cfg["realization_filters"] = [{"method": "cvar-objective", "options": {"sort": [0], "percentile": 0.5}}]
        cfg["function_estimators"] = [{"method": "mean"}, {"method": "stddev"}]
        cfg["samplers"] = [{"method": "sobol", "shared": True}, {"method": "uniform", "options": {"loc": -0.5, "scale": 1.0}}]
        cfg["gradient"].update({"samplers": [0, 1, 0], "seed": 12345, "number_of_perturbations": 4, "perturbation_min_success": 3,
                                "boundary_types": [1, 2, 1], "perturbation_magnitudes": [0.01, 0.5, 0.02]})
        cfg["optimizer"].update({"speculative": True, "max_iterations": 3, "options": {"ftol": 1e-4}})
    return cfg


class Deadline(BaseException):
    """Raised by the watchdog alarm; not an Exception, so that no handler of the code under test can swallow or re-label it."""


def run(sc, external, env_extra=None):
    h = hashlib.sha256()
    state = {"n": 0}

    def evaluator(variables, context):
        state["n"] += 1
        if sc.get("slow"):
            time.sleep(float(sc["slow"]))        # an evaluation that takes longer than the plug-in's polling interval
        if sc.get("raiseAt") == state["n"]:
            raise ValueError("user evaluator failure")
        if sc.get("killDuring") == state["n"]:
            # the optimizer process dies (SIGKILL) while the parent is busy with this evaluation: its request has been read,
            # the answer will find nobody at the other end of the pipe
            for pid in live_children():
                os.kill(pid, signal.SIGKILL)
            time.sleep(0.2)
        h.update(variables.tobytes()); h.update(context.realizations.tobytes())
        base_rows = variables if context.perturbations is None else variables[context.perturbations < 0]
        if base_rows.shape[0]:
            state["last"] = base_rows[-1].copy()
        if context.perturbations is not None:
            h.update(context.perturbations.tobytes())
        x = variables
        obj = ((x - 0.3 * (1 + context.realizations[:, None])) ** 2).sum(axis=1, keepdims=True)
        if sc.get("rich"):           # a second objective that depends on the realization in another way
            obj = np.concatenate([obj, (np.abs(x).sum(axis=1) * (1 + context.realizations % 2))[:, None]], axis=1)
        con = (x[:, 0] * x[:, 2] + x[:, 1])[:, None] if sc.get("con") else None
        if sc.get("nanAt") == state["n"]:
            obj[:] = np.nan
        h.update(obj.tobytes())
        return EvaluatorResult(objectives=obj, constraints=con)

    old_env = {k: os.environ.get(k) for k in ("PATH", "RV_KILL_AFTER", "RV_EXIT_AFTER", "RV_CHILD_ERROR_AFTER", "RV_CHILD_ERROR_EMPTY", "RV_TERM_AFTER_READ")}
    os.environ["PATH"] = (BIN + "2" if sc.get("launcher") else BIN) + ":/venv/bin:" + old_env["PATH"]
    for k, v in (env_extra or {}).items():
        os.environ[k] = str(v)
    plan = Plan(OptimizerContext(evaluator=evaluator))
    step = plan.add_step("optimizer")
    t0 = time.time()

    def alarm(*_):
        raise Deadline
    signal.signal(signal.SIGALRM, alarm)
    signal.alarm(int(sc.get("deadline", DEADLINE)))          # (very large configurations get more time: a busy machine is no hang)
    try:
        kw = {"variables": sc["start"]} if sc.get("start") else {}
        if sc.get("restart"):
            # ONE optimizer object started twice: the second run starts at the point the first one evaluated last
            from ropt.config.enopt import EnOptConfig
            from ropt.ensemble_evaluator import EnsembleEvaluator
            from ropt.optimization import EnsembleOptimizer
            from ropt.plugins import PluginManager
            pm = PluginManager()
            cfgobj = EnOptConfig.model_validate(config(sc, external))
            optimizer = EnsembleOptimizer(cfgobj, EnsembleEvaluator(cfgobj, None, evaluator, pm), pm)

            def twice():
                first = optimizer.start(np.array(cfgobj.variables.initial_values))
                h.update(b"|second start|" + str(first).encode())
                return optimizer.start(np.array(state["last"], dtype=np.float64))
            code, outcome = outcome_of(twice)
        else:
            code, outcome = outcome_of(lambda: plan.run_step(step, config=config(sc, external), **kw))
    except Deadline:
        code, outcome = None, "exc:Deadline"
    finally:
        signal.alarm(0)
        for k, v in old_env.items():
            if v is None:
                os.environ.pop(k, None)
            else:
                os.environ[k] = v
    hang = outcome == "exc:Deadline"
    alive = live_children()
    for pid in alive:
        try:
            os.kill(pid, signal.SIGKILL)
        except OSError:
            pass
    return {"outcome": exit_name(code) if outcome == "ok" else outcome, "sig": h.hexdigest(), "hang": hang, "childalive": bool(alive),
            "evals": state["n"], "wall": round(time.time() - t0, 1)}


def drive(sc):
    kind = sc["kind"]
    if kind == "pair":
        ext = run(sc, True)
        inp = run(sc, False)
        # (an in-process reference run that raises leaves nothing to compare with: the validator rejects such a pair)
        ids = {ext["sig"]: 1}
        e = {"ev": "Pair", "inhang": bool(inp["hang"]), "inraised": bool(inp["outcome"].startswith("exc:") and not inp["hang"]), "sigExt": 1, "sigIn": ids.setdefault(inp["sig"], 2), "extoutcome": ext["outcome"], "inoutcome": inp["outcome"],
             "childalive": ext["childalive"], "hang": ext["hang"], "fault": "none", "outcome": ext["outcome"]}
        return [e], {"nontrivial": True, "key": str(sc), "kind": kind, "evals": ext["evals"]}
    env = {}
    fault = sc["fault"]
    if fault == "kill" and sc.get("term"):
        env["RV_TERM_AFTER_READ"] = sc["after"]
    elif fault == "kill" and sc.get("status"):
        env["RV_EXIT_AFTER"] = sc["after"]
    elif fault == "kill" and sc.get("killDuring"):
        pass
    elif fault == "kill":
        env["RV_KILL_AFTER"] = sc["after"]
    elif fault == "childerror":
        env["RV_CHILD_ERROR_AFTER"] = sc["after"]
        if sc.get("empty"):
            env["RV_CHILD_ERROR_EMPTY"] = "1"
    r = run(sc, True, env)
    e = {"ev": "Run", "fault": fault, "outcome": r["outcome"], "childalive": r["childalive"], "hang": r["hang"],
         "sigExt": 0, "sigIn": 0, "extoutcome": "", "inoutcome": ""}
    nontrivial = (fault == "kill" and sc["after"] >= 2) or (fault == "raise" and sc.get("raiseAt", 0) >= 2) or fault in ("childerror", "stop")
    return [e], {"nontrivial": bool(nontrivial), "key": str(sc), "kind": kind, "fault": fault, "after": sc.get("after", 0)}


MODEL_GRID = [{}, {"RaiseAt": 1}, {"RaiseAt": 2}, {"StopAt": 1}, {"StopAt": 2}, {"ErrAt": 1}, {"ErrAt": 2}, {"K": 3, "RaiseAt": 3},
              {"K": 3, "ErrAt": 2}, {"MayKill": "FALSE"}, {"K": 1}, {"K": 3}]


def model_runs(tier):
    runs = [{"module": "MC_C20", "constants": c, "emit": False} for c in (MODEL_GRID if tier == "thorough" else MODEL_GRID[:7])]
    runs.append({"module": "MC_C20", "constants": {"CheckStatus": "FALSE"}, "emit": False, "expect_violation": "DeathIsNeverSuccess"})
    return runs


def extra_scenarios(tier, seed):
    """Crash-point replay against real child processes (the model has no scenario emission: the fault space is explicit here)."""
    out = []
    if tier == "quick":
        methods = ("slsqp",)
        pairs = [{"method": "slsqp", "con": True, "maxfun": 6, "start": [1.0, -1.0, 0.25]}, {"method": "cobyla", "mask": True, "maxfun": 8},
                 {"method": "differential_evolution", "maxfun": 10, "nanAt": 2, "minsucc": 0},
                 {"method": "differential_evolution", "maxfun": 8, "integer": True}, {"method": "slsqp", "maxfun": 6, "rich": True},
                 {"method": "nelder-mead", "maxfun": 3, "slow": 1.3}, {"method": "nelder-mead", "maxfun": 2, "nvars": 3000},
                 {"method": "slsqp", "maxfun": 4, "redir": True}]
        pairs += [{"method": "nelder-mead", "maxfun": 2, "padto": 65536 + k} for k in (3, 8)]
        pairs += [{"method": "slsqp", "maxfun": 4, "restart": True}, {"method": "slsqp", "maxfun": 6, "nanAt": 2, "restart": True},
                  {"method": "slsqp", "maxfun": 3, "emptylin": True},
                  # the command found on PATH is a launcher script that runs the real runner as its child
                  {"method": "slsqp", "maxfun": 4, "launcher": True},
                  # the back-end named with its plug-in: "external/scipy/slsqp" next to "scipy/slsqp"
                  {"method": "scipy/slsqp", "maxfun": 4}, {"method": "SciPy/Nelder-Mead", "maxfun": 3}]
        kills = (-1, 1, 3, 4)
    else:
        kills, methods = (-1, 1, 2, 3, 4, 5, 6), ("slsqp", "cobyla", "differential_evolution")
        pairs = [{"method": "slsqp", "con": True, "maxfun": 10}, {"method": "slsqp", "mask": True}, {"method": "slsqp", "rel": True, "maxfun": 6},
                 {"method": "cobyla", "mask": True, "maxfun": 8}, {"method": "cobyla", "con": True, "maxfun": 8},
                 {"method": "differential_evolution", "maxfun": 10}, {"method": "l-bfgs-b", "maxfun": 6}, {"method": "nelder-mead", "maxfun": 8},
                 {"method": "slsqp", "nanAt": 3}, {"method": "tnc", "maxfun": 6},
                 {"method": "differential_evolution", "maxfun": 10, "nanAt": 2, "minsucc": 0},
                 {"method": "slsqp", "maxfun": 6, "start": [1.0, -1.0, 0.25]}, {"method": "cobyla", "maxfun": 6, "start": [0.0, 0.5, 1.0], "mask": True},
                 {"method": "differential_evolution", "maxfun": 8, "integer": True}, {"method": "slsqp", "maxfun": 6, "rich": True},
                 {"method": "slsqp", "maxfun": 8, "rich": True, "con": True, "mask": True},
                 {"method": "nelder-mead", "maxfun": 4, "slow": 1.3}, {"method": "slsqp", "maxfun": 3, "slow": 2.2},
                 {"method": "nelder-mead", "maxfun": 2, "nvars": 3000}, {"method": "l-bfgs-b", "maxfun": 2, "nvars": 20000, "deadline": 900},
                 {"method": "slsqp", "maxfun": 4, "redir": True}, {"method": "cobyla", "maxfun": 4, "redir": True, "mask": True}]
        pairs += [{"method": "nelder-mead", "maxfun": 2, "padto": 65536 * m + k} for m in (1, 2) for k in range(0, 13)]
        pairs += [{"method": "slsqp", "maxfun": 4, "restart": True}, {"method": "slsqp", "maxfun": 6, "nanAt": 2, "restart": True},
                  {"method": "nelder-mead", "maxfun": 3, "restart": True}, {"method": "cobyla", "maxfun": 5, "con": True, "restart": True},
                  {"method": "slsqp", "maxfun": 3, "emptylin": True},
                  {"method": "scipy/slsqp", "maxfun": 4}, {"method": "SciPy/Nelder-Mead", "maxfun": 3}, {"method": "scipy/default", "maxfun": 4},
                  {"method": "slsqp", "maxfun": 4, "launcher": True}, {"method": "cobyla", "maxfun": 4, "launcher": True}]
    for m in methods:
        for k in kills:
            out.append({"kind": "fault", "fault": "kill", "after": k, "method": m, "maxfun": 12})
    for k in ((1, 3) if tier == "quick" else (1, 2, 3, 4, 5, 6)):       # the process exits with a positive status, without a report
        out.append({"kind": "fault", "fault": "kill", "status": True, "after": k, "method": "slsqp", "maxfun": 12})
    for k in ((3,) if tier == "quick" else (1, 2, 3, 4, 5)):
        out.append({"kind": "fault", "fault": "kill", "term": True, "after": k, "method": "slsqp", "maxfun": 12})
    for j in ((2,) if tier == "quick" else (1, 2, 3, 4)):
        out.append({"kind": "fault", "fault": "raise", "raiseAt": j, "method": "slsqp"})
    for k in (1, 2, 4):
        out.append({"kind": "fault", "fault": "kill", "killDuring": k, "after": k + 1, "method": "slsqp", "maxfun": 12})
    # ... with the back-end's output redirected to a file (another code path around the run)
    for k in (1, 3):
        out.append({"kind": "fault", "fault": "kill", "killDuring": k, "after": k + 1, "method": "slsqp", "maxfun": 12, "redir": True})
    out.append({"kind": "fault", "fault": "kill", "after": 3, "method": "slsqp", "maxfun": 12, "redir": True})
    out.append({"kind": "fault", "fault": "stop", "method": "slsqp", "maxfun": 2})
    out.append({"kind": "fault", "fault": "childerror", "after": 1, "method": "slsqp"})
    out.append({"kind": "fault", "fault": "childerror", "after": 2, "method": "slsqp", "empty": True})
    if tier == "thorough":
        out.append({"kind": "fault", "fault": "childerror", "after": 3, "method": "cobyla"})
    out.append({"kind": "fault", "fault": "none", "method": "slsqp", "maxfun": 0})
    for p in pairs:
        out.append({"kind": "pair", **p})
    return out


CHECK = PropertyCheck(
    prop="C20", trace_module="Trace_C20", drive=drive, model_runs=model_runs, extra_scenarios=extra_scenarios,
    rule=("TLC model-checks External.tla - every interleaving of parent and child steps with the child killed at any moment, the "
          "evaluator raising or ending the optimisation at each evaluation, a child-side algorithm error - for safety (death is never "
          "success, exceptions and stop codes propagate, success means complete) and liveness (the step eventually returns, weak "
          "fairness), and finds the counterexample for the as-is switch; crash points are replayed against REAL child processes (a "
          "wrapper executable that SIGKILLs itself after its k-th message or fails its algorithm), evaluator exceptions at chosen "
          "evaluations, budget stops, and external/in-process pairs whose complete evaluator traces are hashed. Non-trivial: a crash "
          "after the configuration handshake, an exception after the first evaluation, a child error or stop."),
    assumptions=["the wrapper executable imports the real child code and only wraps the communicator's write method",
                 "a run exceeding 120 s is a hang (900 s for the 20000-variable pair)"],
    exhaustive_claim=False, pool=6,
)
