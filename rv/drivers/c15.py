"""C15 - event streams are well formed and aborts latch the plan, at every abort point (with the exit codes of C14)."""
from __future__ import annotations

import numpy as np

from ropt.enums import EventType, OptimizerExitCode
from ropt.evaluator import EvaluatorResult
from ropt.exceptions import OptimizationAborted, PlanAborted
from ropt.plan import OptimizerContext, Plan
from ropt.plugins import PluginManager
from ropt.plugins.plan.base import PlanHandlerPlugin, ResultHandler
from ropt.results import FunctionResults

from ..core import PropertyCheck
from ..ropt_util import ScriptPlugin, exit_name

NH, NO = 2, 2
ETYPE = {EventType.START_OPTIMIZER_STEP: "START_STEP", EventType.START_EVALUATOR_STEP: "START_STEP",
         EventType.FINISHED_OPTIMIZER_STEP: "FINISHED_STEP", EventType.FINISHED_EVALUATOR_STEP: "FINISHED_STEP",
         EventType.START_EVALUATION: "START_EVAL", EventType.FINISHED_EVALUATION: "FINISHED_EVAL"}


class Recorder:
    """Shared by all receivers of one run: numbers emissions by event identity, raises the scripted abort."""

    def __init__(self, sc):
        self.sc = sc
        self.events = []           # trace events
        self.em = 0
        self.last_event = None
        self.pos = 0
        self.stepno = {}           # uuid -> step number
        self.raised = False
        self.keep = []             # keep event objects alive so that identities are not reused
        self.outer_level = 1       # the outer plan that is running (3: the second outer plan of a "renest" scenario)

    def deliver(self, event, recv):
        if event is not self.last_event:
            self.em += 1
            self.pos = 0
            self.last_event = event
            self.keep.append(event)
        self.pos += 1
        sn = self.stepno.get(event.source, 1)
        level = 2 if sn >= 100 else (3 if self.outer_level == 3 else 1)
        self.events.append({"ev": "Deliver", "etype": ETYPE[event.event_type], "step": self.stepno.get(event.source, -1),
                            "level": level, "recv": recv, "code": ""})
        if self.sc["abEm"] == self.em and self.sc["abRc"] == self.pos:
            self.raised = True
            # (the exit code is an IntEnum: every second abort gives it as the plain integer)
            raise OptimizationAborted(exit_code=int(OptimizerExitCode.USER_ABORT) if (self.em + self.pos) % 2 else OptimizerExitCode.USER_ABORT)


class RecHandler(ResultHandler):
    def __init__(self, plan, *, rec, level, idx):
        super().__init__(plan)
        self._rec, self._recv = rec, {"kind": "h", "level": level, "idx": idx}

    def handle_event(self, event):
        self._rec.deliver(event, self._recv)


class RecPlugin(PlanHandlerPlugin):
    def create(self, name, plan, **kwargs):
        return RecHandler(plan, **kwargs)

    def is_supported(self, method):
        return method.lower() == "rec"


def config(k, maxfun=0, outdir=None):
    cfg = {"variables": {"initial_values": [0.0, 0.0]},
           "optimizer": {"method": "rvscript/script", "options": {"script": [{"f": True, "g": False, "x": None}] * k}},
           "realizations": {"weights": [1.0, 1.0]}}
    if maxfun:
        cfg["optimizer"]["max_functions"] = maxfun
    if outdir:
        cfg["optimizer"].update({"output_dir": outdir, "stdout": "optimizer.out"})
    return cfg


def drive(sc):
    if (sc["cfg"] if "cfg" in sc else sc).get("redir"):
        import tempfile
        with tempfile.TemporaryDirectory(prefix="rvc15") as outdir:
            return _drive(sc, outdir)
    return _drive(sc, None)


def _drive(sc, outdir):
    full = sc
    sc = sc["cfg"] if "cfg" in sc else sc
    rec = Recorder(sc)
    calls = {"n": 0}

    def evaluator(variables, context):
        calls["n"] += 1
        if sc["abCall"] == calls["n"]:
            rec.raised = True
            raise OptimizationAborted(exit_code=int(OptimizerExitCode.USER_ABORT) if calls["n"] % 2 else OptimizerExitCode.USER_ABORT)
        obj = variables.sum(axis=1, keepdims=True) + 1.0
        if sc["failAt"] == calls["n"]:
            obj = np.full_like(obj, np.nan)
        return EvaluatorResult(objectives=obj)

    pm = PluginManager()
    pm.add_plugin("optimizer", "rvscript", ScriptPlugin())
    pm.add_plugin("plan_handler", "rvrec", RecPlugin())
    ctx = OptimizerContext(evaluator=evaluator, plugin_manager=pm)
    for i in range(1, NO + 1):
        recv = {"kind": "o", "level": 0, "idx": i}
        for et in EventType:
            ctx.add_observer(et, lambda e, recv=recv: rec.deliver(e, recv))
    outer = Plan(ctx)
    for i in range(1, NH + 1):
        outer.add_handler("rvrec/rec", rec=rec, level=1, idx=i)
    trace = [{"ev": "Scenario", **{k: sc[k] for k in ("kind", "K", "Kin", "failAt", "maxfun", "abEm", "abRc", "abCall")},
              "twoctx": bool(sc.get("twoctx", False)), "redir": bool(sc.get("redir", False))}]
    refused = 0

    def run(plan, step, stepno, **kw):
        nonlocal refused
        rec.stepno[step] = stepno
        try:
            code = plan.run_step(step, **kw)
            rec.events.append({"ev": "Return", "etype": "", "step": stepno, "level": 2 if stepno >= 100 else (3 if plan is not outer else 1),
                               "recv": {"kind": "", "level": 0, "idx": 0}, "code": exit_name(code)})
            return code
        except PlanAborted:
            refused += 1
            return None

    kind = sc["kind"]
    outcome = "ok"
    outer2 = None
    try:
        if kind == "eval":
            step = outer.add_step("evaluator")
            run(outer, step, 1, config={"variables": {"initial_values": [0.0, 0.0]}, "realizations": {"weights": [1.0, 1.0]}})
        elif kind in ("opt", "seq"):
            s1 = outer.add_step("optimizer")
            run(outer, s1, 1, config=config(sc["K"], sc["maxfun"], outdir))
            if kind == "seq":
                s2 = outer.add_step("optimizer")
                run(outer, s2, 2, config=config(sc["K"], sc["maxfun"], outdir))
        else:
            # ("renest": after the first outer run a second outer plan, with handlers of its own, runs the same inner plan)
            inner = Plan(OptimizerContext(evaluator=evaluator, plugin_manager=pm) if sc.get("twoctx") else ctx)
            for i in range(1, NH + 1):
                inner.add_handler("rvrec/rec", rec=rec, level=2, idx=i)
            istep = inner.add_step("optimizer")
            tracker = inner.add_handler("tracker", what="last", sources={istep})
            counter = {"k": 0}

            def inner_fn(plan, variables):
                nonlocal refused
                counter["k"] += 1
                base = 150 if rec.outer_level == 3 else 100
                if rec.outer_level == 3 and counter.get("second") is None:
                    counter["second"] = True; counter["k"] = 1
                rec.stepno[istep] = base + counter["k"]
                try:
                    code = plan.run_step(istep, config=config(sc["Kin"], 0, outdir), variables=variables)
                    rec.events.append({"ev": "Return", "etype": "", "step": base + counter["k"], "level": 2,
                                       "recv": {"kind": "", "level": 0, "idx": 0}, "code": exit_name(code)})
                except PlanAborted:
                    refused += 1
                return plan.get(tracker, "results")

            inner.add_function(inner_fn)
            s1 = outer.add_step("optimizer")
            run(outer, s1, 1, config=config(sc["K"], sc["maxfun"], outdir), nested_optimization=inner)
            if kind == "renest":
                outer2 = Plan(ctx)
                for i in range(1, NH + 1):
                    outer2.add_handler("rvrec/rec", rec=rec, level=3, idx=i)
                rec.outer_level = 3
                s2 = outer2.add_step("optimizer")
                run(outer2, s2, 2, config=config(sc["K"], sc["maxfun"], outdir), nested_optimization=inner)
            aborted_inner = inner.aborted
    except Exception as exc:  # noqa: BLE001 - an escaping exception is the observation
        outcome = f"exc:{type(exc).__name__}"
        rec.events.append({"ev": "Escaped", "etype": "", "step": 0, "level": 0, "recv": {"kind": "", "level": 0, "idx": 0},
                           "code": outcome})
    trace += rec.events
    trace.append({"ev": "End", "etype": "", "step": 0, "level": 0, "recv": {"kind": "", "level": 0, "idx": 0}, "code": "",
                  "aborted": [bool(outer.aborted), bool(kind in ("nested", "renest") and inner.aborted),
                              bool(kind == "renest" and outer2 is not None and outer2.aborted)], "refused": refused})
    for e in trace[1:]:
        e.setdefault("aborted", [False, False, False]); e.setdefault("refused", 0)
    feats = {"nontrivial": bool(rec.raised and not (sc["abEm"] == 1 and sc["abRc"] == 1)) or kind in ("nested", "renest"),
             "key": str(sc), "kind": kind, "raised": rec.raised,
             "abort_at_step_event": bool(rec.raised and sc["abEm"] > 0 and any(
                 e["ev"] == "Deliver" and e["etype"] in ("START_STEP", "FINISHED_STEP") for e in rec.events[-1:])),
             "escaped": outcome}
    return trace, feats


def model_runs(tier):
    if tier == "quick":
        return [{"module": "MC_C15", "workers": 4}]
    return [{"module": "MC_C15", "workers": 8, "heap": "12g",
             "constants": {"KSet": "{1, 2, 3}", "KinSet": "{1, 2}", "MaxEm": 30, "MaxCall": 9}}]


def attach_runs(tier, size="full"):
    """Plan.tla as an attached specification of another check (C14: exit codes of steps): every third scenario."""
    runs = model_runs(tier)
    return [dict(r, stride=3) for r in runs] if size == "medium" else runs


ATTACH = {"spec": "Plan.tla", "trace_module": "Trace_C15", "model_runs": attach_runs, "chunk": 400}
C14_CLAUSES = ("exit_code_expected",)

from .basic import C15_CLAUSES as _BASIC_CLAUSES  # noqa: E402

CHECK = PropertyCheck(
    attached=(("rv.drivers.basic", _BASIC_CLAUSES),),
    whole_run_clauses=('step_started_inside_a_step', 'evaluation_outside_a_step', 'evaluations_interleaved', 'FINISHED_EVALUATION_without_START_EVALUATION', 'FINISHED_STEP_without_START_STEP', 'step_returned_without_FINISHED_STEP', 'unmatched_START_EVALUATION_without_abort', 'abort_not_reported', 'step_refused_without_abort', 'step_ran_after_the_plan_was_aborted'),
    prop="C15", trace_module="Trace_C15", drive=drive, model_runs=model_runs,
    rule=("TLC model-checks Plan.tla (bracketing, delivery order, abort latch, nested abort reaches the parent, termination under weak "
          "fairness) for every plan shape {optimizer, evaluator, two sequential steps, nested} x run length x failing evaluation x budget "
          "x abort raised at EVERY delivery of EVERY emission (2 handlers per plan + 2 observers) and at every evaluator call; each "
          "scenario is executed on real plans with recording handlers/observers and the recorded stream is replayed action by action "
          "against the model (Trace_C15). Non-trivial: an abort raised after the very first delivery, or a nested plan."),
    assumptions=["after the receiver that raises the abort no further receiver gets that event",
                 "a nested optimisation that fails without abort is outside the bounded instance"],
    trace_chunk=400,
)
