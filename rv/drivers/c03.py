"""C03 - failed realizations and perturbations are excluded exactly as if absent."""
from __future__ import annotations

import numpy as np

from ropt.plan import OptimizerContext, Plan

from ..core import PropertyCheck
from .. import graddrive
from ..graddrive import eval_grad, features, build_config, AffineEvaluator, DesignPlugin
from ..ropt_util import ScriptPlugin, exit_name, outcome_of


def run_optimizer(sc):
    """One optimizer step with a scripted back-end asking for functions+gradients once."""
    DesignPlugin.design = sc["design"]
    pm = graddrive.manager()
    pm.add_plugin("optimizer", "rvscript", ScriptPlugin())
    ScriptPlugin.reset([{"f": True, "g": True, "x": None}])
    config = build_config(sc, optimizer={"method": "rvscript/script"})
    plan = Plan(OptimizerContext(evaluator=AffineEvaluator(sc), plugin_manager=pm))
    step = plan.add_step("optimizer")
    code, outcome = outcome_of(lambda: plan.run_step(step, config=config))
    return exit_name(code) if outcome == "ok" else outcome


class _InfEvaluator(AffineEvaluator):
    """The last realization whose unperturbed evaluation succeeds returns +infinity as its first objective."""

    def __call__(self, variables, context):
        res = super().__call__(variables, context)
        ok = [r for r in range(len(self.nanF)) if not self.nanF[r]]
        if ok and context.perturbations is None:
            rows = (context.realizations == ok[-1]) & ~np.isnan(res.objectives[:, 0])
            res.objectives[rows, 0] = np.inf
        return res


def inf_flags(sc):
    import warnings
    from ropt.ensemble_evaluator import EnsembleEvaluator
    DesignPlugin.design = sc["design"]
    ee = EnsembleEvaluator(build_config(sc), None, _InfEvaluator(sc), graddrive.manager())
    with warnings.catch_warnings():
        warnings.simplefilter("ignore")
        res, outcome = outcome_of(lambda: ee.calculate(np.array(sc["x"], dtype=np.float64), compute_functions=True, compute_gradients=False))
    flags = [] if not res else [bool(b) for b in res[0].realizations.failed_realizations]
    return {"ev": "InfFlags", "R": sc["R"], "nanF": sc["nanF"], "outcome": outcome, "failedObs": flags}


def drive(sc):
    e, _, _ = eval_grad(sc, "both")
    trace = [e]
    e2, _, _ = eval_grad(sc, "split")
    trace.append(e2)
    keys = ("V", "mask", "x", "R", "P", "rw", "ow", "est", "flt", "a", "b", "minsucc", "pms", "merged", "nanF", "nanP")
    trace.append({"ev": "OptRun", **{k: sc[k] for k in keys}, "exit": run_optimizer(sc)})
    trace.append(inf_flags(sc))
    feats = features(sc, e)
    nfail = sum(1 for c in sc["nanF"] if c) + sum(1 for row in sc["nanP"] for c in row if c)
    succ_pos = any(sc["rw"][r] > 0 and not sc["nanF"][r] for r in range(sc["R"]))
    feats["nontrivial"] = bool(nfail >= 1 and succ_pos)
    feats["key"] = f"{sc['R']}x{sc['P']}|{sc['nanF']}|{sc['nanP']}|{sc['minsucc']}|{sc['pms']}|{sc['flt']}|{sc['est']}"
    return trace, feats


def model_runs(tier):
    if tier == "quick":
        return [{"module": "MC_Grad", "constants": {"Family": '"c03"', "RSet": "{2}", "PSet": "{2}"}}]
    return [{"module": "MC_Grad", "constants": {"Family": '"c03"', "RSet": "{2}", "PSet": "{2}"}},
            {"module": "MC_Grad", "constants": {"Family": '"c03"', "RSet": "{3}", "PSet": "{2}"}, "heap": "8g"},
            {"module": "MC_Grad", "constants": {"Family": '"c03"', "RSet": "{2}", "PSet": "{3}"}, "heap": "8g"}]


def extra_scenarios(tier, seed):
    """Sampled larger ensembles (beyond the exhaustive bound)."""
    rng = np.random.default_rng(seed)
    out = []
    for _ in range(200 if tier == "quick" else 3000):
        R = int(rng.integers(3, 6)); P = int(rng.integers(2, 5)); V = 3
        mask = [True, bool(rng.integers(2)), True]
        design = rng.integers(-2, 3, (1, P, V)).repeat(R, axis=0)
        out.append({
            "V": V, "mask": mask, "x": [1, -1, 2], "R": R, "P": P,
            "rw": [int(w) for w in rng.integers(0, 3, R)] if rng.random() < 0.8 else [1] * R, "ow": [3, 1],
            "est": [["mean", "std"][int(rng.integers(2))] for _ in range(3)],
            "flt": [[-1, -1, -1], [0, -1, -1], [1, 1, -1], [-1, -1, 2], [0, 3, 3], [2, -1, 2]][int(rng.integers(6))],
            "a": rng.integers(-2, 3, (R, 3, V)).tolist(), "b": rng.integers(-1, 2, (R, 3)).tolist(),
            "minsucc": int(rng.integers(0, R + 1)), "pms": int(rng.integers(1, P + 1)), "merged": False, "shared": True,
            "ident": False, "nanF": [int(c) for c in rng.integers(0, 4, R) * (rng.random(R) < 0.25)],
            "nanP": (rng.integers(1, 4, (R, P)) * (rng.random((R, P)) < 0.25)).tolist(),
            "design": design.tolist(), "expect": "unknown", "fam": "random"})
        if sum(out[-1]["rw"]) == 0:
            out[-1]["rw"][0] = 1
        if "std" in out[-1]["est"]:
            # larger random ensembles: keep gradient-only failures away from stddev functions (the squared-gradient projection
            # needs small denominators, which only the enumerated families guarantee)
            out[-1]["pms"] = 1
            for row in out[-1]["nanP"]:
                row[0] = 0
        # objective columns must have distinct values for unique rankings: guaranteed only in the TLC families;
        # random scenarios therefore use no filter when an objective column has ties
        a = np.array(out[-1]["a"]); b = np.array(out[-1]["b"]); x = np.array([1, -1, 2])
        cols = a @ x + b
        if len(set(cols[:, 0])) < R or len(set(cols[:, 1])) < R or len(set(cols[:, 2])) < R:
            out[-1]["flt"] = [-1, -1, -1]
    return out


CHECK = PropertyCheck(
    whole_run_clauses=('functions_withheld_although_enough_realizations_succeeded', 'failed_flags_not_the_nan_rows', 'functions_reported_below_min_success'),
    prop="C03", trace_module="Trace_Grad", drive=drive, model_runs=model_runs, extra_scenarios=extra_scenarios,
    rule=("Exhaustive fault enumeration by TLC: every subset of the R + R*P evaluations fails (R=2,P=2 quick: 64 masks; thorough adds "
          "3x2 and 2x3: 512 masks each) x NaN column x realization_min_success 0..R x perturbation_min_success 1..P x filter "
          "none/sort/CVaR x mean/std; each replayed as combined and split evaluations and through an optimizer step (exit code); "
          "sampled larger ensembles. Non-trivial: >=1 failure and >=1 positively weighted success; distinct by mask and thresholds."),
    assumptions=["filter weights in force for a gradient are those of the function evaluation (gradient-only failures zero and renormalise them)",
                 "value clauses apply only when a positively weighted realization succeeds and the surviving perturbations span"],
    trace_chunk=1500,
)
