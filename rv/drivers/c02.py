"""C02 - stochastic gradient is exact on affine ensembles and zero on fixed variables."""
from __future__ import annotations

import numpy as np

from ..core import PropertyCheck
from ..graddrive import eval_grad, features


def drive(sc):
    trace = []
    e, _, _ = eval_grad(sc, "both")
    trace.append(e)
    e2, _, _ = eval_grad(sc, "split")
    trace.append(e2)
    if not any(sc["nanF"]) and not any(any(p) for p in sc["nanP"]):
        e3, _, _ = eval_grad(sc, "near")
        trace.append(e3)
    return trace, features(sc, e)


def model_runs(tier):
    if tier == "quick":
        return [{"module": "MC_Grad", "constants": {"Family": '"c02"'}}]
    return [{"module": "MC_Grad", "constants": {"Family": '"c02"', "RSet": "{2, 3}", "PSet": "{3, 4}", "MaskSet": "{1, 2, 3, 4}",
                                                "DesSet": "{1, 2, 3, 4}", "SaltSet": "{0, 1}", "EstSet": "{1, 2, 3, 4}",
                                                "FltSet": "{1, 2, 3, 4, 5, 6}", "WSet": "{1, 2, 3, 4}"}, "heap": "12g", "timeout": 7200}]


def extra_scenarios(tier, seed):
    return []


CHECK = PropertyCheck(
    prop="C02", trace_module="Trace_Grad", drive=drive, model_runs=model_runs, extra_scenarios=extra_scenarios,
    rule=("TLC enumerates masks x injected integer designs (+-identity, simplex, rank-one, banded; shared or rotated per realization) x "
          "slope tables x weights x estimator and filter maps x failure patterns x perturbation_min_success x merged/identical; each "
          "replayed as one combined and as split function+gradient evaluations. Non-trivial: gradients reported, every contributing "
          "realization's reported perturbation matrix meets the conditioning bound, >=2 contributing realizations."),
    assumptions=["exactness of the least-squares solve under the conditioning precondition is what the replay tests (1e-7)",
                 "gradient of a standard deviation is compared as gradient x reported deviation (rational)",
                 "merged estimation judged only for shared perturbations without failed perturbations, or identical realizations",
                 "filter weights in force for a gradient are those of the function evaluation at the same point"],
    trace_chunk=1500,
)
