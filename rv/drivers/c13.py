"""C13 - constraint differences and violations are reported exactly for all bound kinds."""
from __future__ import annotations

import numpy as np

from ropt.config.enopt import EnOptConfig
from ropt.enums import EventType
from ropt.evaluator import EvaluatorResult
from ropt.plan import OptimizerContext, Plan
from ropt.results import FunctionResults

from ..core import PropertyCheck, nums
from ..ropt_util import outcome_of, plugin_manager
from ..transforms_util import make_transforms

INF_Q = 1000000


def f(b):
    return float("inf") if b >= INF_Q else float("-inf") if b <= -INF_Q else float(b)


def group(lower, upper, viol):
    if lower is None:
        return {"present": False, "lower": [], "upper": [], "viol": []}
    return {"present": True, "lower": nums(lower, exact=True), "upper": nums(upper, exact=True),
            "viol": nums(viol, exact=True) if viol is not None else []}


def drive(sc):
    v, lb, ub = sc["v"], [f(b) for b in sc["lb"]], [f(b) for b in sc["ub"]]
    eps = int(sc.get("eps", 0))
    x = [float(v[0]) + eps / 65536.0, float(v[1])]
    transforms = {0: None, 1: make_transforms([2.0, 0.5], [1.0, -1.0], [2.0], [2.0, 4.0]),
                  2: make_transforms(var_scales=[2.0, 0.5]), 3: make_transforms(var_offsets=[1.0, -1.0]),
                  4: make_transforms(con_scales=[2.0, 4.0]), 5: make_transforms(obj_scales=[2.0])}[int(sc["tf"])]
    cfg = {
        "variables": ({"initial_values": x} if sc.get("vfree") else
                      {"initial_values": x, "lower_bounds": lb, "upper_bounds": ub}),
        "linear_constraints": {"coefficients": [[2.0, 2.0], [1.0, -1.0]], "lower_bounds": lb, "upper_bounds": ub},
        "nonlinear_constraints": {"lower_bounds": lb, "upper_bounds": ub},
    }

    plain_cfg = dict(cfg)
    objects = (v[0] + v[1] + int(sc["tf"])) % 2 == 0
    if objects:
        # sections the caller validated beforehand as objects of their own (instead of dictionaries)
        from ropt.config.enopt import LinearConstraintsConfig, NonlinearConstraintsConfig, VariablesConfig
        for key, cls in (("variables", VariablesConfig), ("linear_constraints", LinearConstraintsConfig),
                         ("nonlinear_constraints", NonlinearConstraintsConfig)):
            cfg[key] = cls.model_validate(cfg[key])

    def evaluator(variables, context):
        return EvaluatorResult(objectives=variables[:, :1].copy(),
                               constraints=np.stack([variables[:, 0] + 1.0, 2.0 * variables[:, 1]], axis=1))

    seen = []
    ctx = OptimizerContext(evaluator=evaluator, plugin_manager=plugin_manager())
    ctx.add_observer(EventType.FINISHED_EVALUATION, lambda e: seen.extend(e.data["results"]))
    plan = Plan(ctx)
    step = plan.add_step("evaluator")
    tracker = plan.add_handler("tracker", what="last", constraint_tolerance=(0.0 if sc["tol"] == 0 else sc["tol"] + 0.5), sources={step})
    if transforms is not None:
        # the transforms object has been used before, for a configuration with other linear rows (same number of rows)
        from ropt.config.enopt import EnOptConfig
        other = dict(cfg, linear_constraints={"coefficients": [[8.0, -1.0], [0.5, 0.25]], "lower_bounds": [-1.0, -1.0],
                                              "upper_bounds": [1.0, 1.0]})
        EnOptConfig.model_validate(other, context=transforms)
    if transforms is None and not sc.get("vfree") and (v[0] + sc["tol"]) % 2 == 0:
        # the variables section is DERIVED (model_copy) from the section of an unbounded configuration that has been used
        from ropt.config.enopt import EnOptConfig
        unbounded = EnOptConfig.model_validate(dict(plain_cfg, variables={"initial_values": x}))
        plan0 = Plan(OptimizerContext(evaluator=evaluator, plugin_manager=plugin_manager()))
        outcome_of(lambda: plan0.run_step(plan0.add_step("evaluator"), config=unbounded))
        cfg["variables"] = unbounded.variables.model_copy(update={"lower_bounds": np.array(lb), "upper_bounds": np.array(ub)})
    if objects:
        # ... and the caller's section objects have been through a complete validation (with the same context) before
        from ropt.config.enopt import EnOptConfig
        EnOptConfig.model_validate(cfg, context=transforms)
    _, outcome = outcome_of(lambda: plan.run_step(step, config=cfg, transforms=transforms))
    fr = next((r for r in seen if isinstance(r, FunctionResults)), None)
    ci = None if fr is None else fr.constraint_info
    e = {"ev": "Info", "eps": eps, "v": v, "lb": sc["lb"], "ub": sc["ub"], "tol": sc["tol"], "tf": bool(sc["tf"]), "vfree": bool(sc.get("vfree", False)),
         "outcome": outcome if fr is not None or outcome != "ok" else "exc:noresult",
         "bound": group(*(None, None, None) if ci is None else (ci.bound_lower, ci.bound_upper, ci.bound_violation)),
         "linear": group(*(None, None, None) if ci is None else (ci.linear_lower, ci.linear_upper, ci.linear_violation)),
         "nonlinear": group(*(None, None, None) if ci is None else (ci.nonlinear_lower, ci.nonlinear_upper, ci.nonlinear_violation)),
         "tracked": not sc["tf"], "kept": plan.get(tracker, "results") is not None}
    trace = [e]
    if int(sc["tf"]) in (1, 2, 3) and (v[0] + v[1] + sc["tol"]) % 2 == 0:
        # the other order: THIS configuration is validated with the transform object, then another configuration (other linear
        # rows) is validated with the same object, then this configuration is evaluated
        transforms2 = {1: make_transforms([2.0, 0.5], [1.0, -1.0], [2.0], [2.0, 4.0]), 2: make_transforms(var_scales=[2.0, 0.5]),
                       3: make_transforms(var_offsets=[1.0, -1.0])}[int(sc["tf"])]
        mine = EnOptConfig.model_validate(plain_cfg, context=transforms2)      # (from dictionaries: this event is about the transform object only)
        EnOptConfig.model_validate(other, context=transforms2)
        seen.clear()
        plan2 = Plan(ctx)
        _, outcome2 = outcome_of(lambda: plan2.run_step(plan2.add_step("evaluator"), config=mine, transforms=transforms2))
        fr2 = next((r for r in seen if isinstance(r, FunctionResults)), None)
        ci2 = None if fr2 is None else fr2.constraint_info
        trace.append(dict(e, ev="InfoShared", tracked=False, kept=False,
                          outcome=outcome2 if fr2 is not None or outcome2 != "ok" else "exc:noresult",
                          bound=group(*(None, None, None) if ci2 is None else (ci2.bound_lower, ci2.bound_upper, ci2.bound_violation)),
                          linear=group(*(None, None, None) if ci2 is None else (ci2.linear_lower, ci2.linear_upper, ci2.linear_violation)),
                          nonlinear=group(*(None, None, None) if ci2 is None else (ci2.nonlinear_lower, ci2.nonlinear_upper, ci2.nonlinear_violation))))
    fin = [abs(b) < INF_Q for b in sc["lb"] + sc["ub"]]
    mixed = any(fin) and not all(fin)
    violated = any((abs(l) < INF_Q and x < l) or (abs(u) < INF_Q and x > u) for x, l, u in zip(v, sc["lb"], sc["ub"]))
    both_inf = any(abs(b) >= INF_Q for b in sc["lb"]) and any(abs(b) >= INF_Q for b in sc["ub"])
    return trace, {"nontrivial": bool(mixed or violated), "key": str(sc), "both_sides_infinite_entry": both_inf, "tf": bool(sc["tf"])}


def model_runs(tier):
    return [{"module": "MC_C13", "constants": {"VMax": 3 if tier == "quick" else 5}},
            {"tlaps": "proofs/KernelProofs.tla"}]      # violation = distance, positive iff outside: for all integers


from .basic import C13_CLAUSES as _BASIC_CLAUSES  # noqa: E402

CHECK = PropertyCheck(
    attached=(("rv.drivers.basic", _BASIC_CLAUSES, "medium"),),
    prop="C13", trace_module="Trace_C13", drive=drive, model_runs=model_runs,
    rule=("TLC enumerates value x (lower, upper) with either side finite or infinite for the first entry and a catalogue of companion "
          "entries (every finite/infinite mix within one bound vector), x tolerance x six transform sets (none, all, variable scales, variable offsets only, constraint scaling only, objective scaling only; dyadic); the same triples serve as "
          "variable bounds, linear rows (2x1+2x2, x1-x2) and non-linear constraints; replayed through a plan evaluator step with a "
          "'last' tracker. Non-trivial: a mix of finite and infinite bounds or a violated bound."),
    assumptions=["integer data and dyadic transforms: differences compared exactly",
                 "bound differences may be absent only when no variable bound is finite",
                 "tracker acceptance judged only without transforms (violations are then domain independent)"],
)
