"""C08 - the problem handed to SciPy is equivalent to the configured problem."""
from __future__ import annotations

import numpy as np

from ropt.evaluator import EvaluatorResult
from ropt.plan import OptimizerContext, Plan

from ..core import PropertyCheck, num, nums
from ..ropt_util import outcome_of
from ..scipydrive import Captured, manager_with_logging, patched

INF = float("inf")
INF_Q = 1000000
KB = {"eq": (1.0, 1.0), "lower": (0.0, INF), "upper": (-INF, 2.0), "two": (-1.0, 2.0), "none": (-INF, INF)}
NL_A = np.array([[1.0, 1.0, 1.0], [1.0, 0.0, -2.0], [2.0, 0.0, -1.0]]); NL_B = np.array([0.0, 1.0, 0.0])
LIN_A = np.array([[1.0, 0.0, 1.0], [1.0, 0.0, -1.0], [1.0, 1.0, 0.0]])
# with two fixed variables (mask "fix23"): the first row touches both fixed variables with coefficients that cancel in the sum
LIN_A23 = np.array([[1.0, 1.0, -1.0], [1.0, 0.0, 0.0], [1.0, 1.0, 0.0]])
GRID = [[a, b] for a in (-2, 0, 1, 3) for b in (-2, 0, 1, 3)]


def q(b):
    return INF_Q if b == INF else -INF_Q if b == -INF else int(b)


def drive(sc):
    method = sc["method"]
    nnl, nlin = len(sc["nl"]), len(sc["lin"])
    masked = sc["mask"] in ("fix2", "fix23")
    fix23 = sc["mask"] == "fix23"
    lin_a = LIN_A23 if fix23 else LIN_A
    if method == "cobyla":
        vlb, vub = [-INF] * 3, [INF] * 3
    elif method == "differential_evolution":
        vlb, vub = [-3.0, -4.0, -3.0], [3.0, 5.0, 4.0]
    elif sc.get("vb") == "onesided":          # no variable is bounded on both sides
        vlb, vub = [-1.0, -INF, -INF], [INF, 5.0, 2.0]
    else:
        vlb, vub = [-1.0, -INF, -INF], [3.0, 5.0, 2.0]
    if sc["mask"] != "none" and (len(sc["nl"]) + len(sc["lin"])) % 2 == 0 and method not in ("cobyla", "differential_evolution"):
        # finite bounds on FREE variables only: the fixed ones are unbounded
        for k in ((1, 2) if sc["mask"] == "fix23" else (1,)):
            vlb[k], vub[k] = -INF, INF
    cfg = {"variables": {"initial_values": [0.0, 1.0, 0.0], "lower_bounds": vlb, "upper_bounds": vub},
           # (the method name is case-insensitive: every second scenario spells it in capitals)
           "optimizer": {"method": "rvscipy/" + (method.upper() if (sc["maxit"] > 0 and sc["options"] == "dict") or ((len(sc["nl"]) + len(sc["lin"])) % 2 == 1 and not sc["maxit"]) else method)},
           "gradient": {"number_of_perturbations": 4, "perturbation_magnitudes": 0.01}}
    vectorized = method == "differential_evolution" and nnl >= 2 and sc["maxit"] == 0
    if vectorized:
        cfg["optimizer"]["parallel"] = True
    if masked:
        cfg["variables"]["mask"] = [True, False, False] if fix23 else [True, False, True]
    if sc["maxit"]:
        cfg["optimizer"]["max_iterations"] = sc["maxit"]
    if sc["options"] == "empty":
        cfg["optimizer"]["options"] = {}
    elif sc["options"] == "dict":
        cfg["optimizer"]["options"] = {"disp": False}
        if (nnl + nlin) % 2 == 0 and method != "differential_evolution":
            # the dict carries its own iteration-limit entry: a configured max_iterations still is the limit that counts
            cfg["optimizer"]["options"]["maxfun" if method == "tnc" else "maxiter"] = 3
    if nnl:
        cfg["nonlinear_constraints"] = {"lower_bounds": [KB[k][0] for k in sc["nl"]], "upper_bounds": [KB[k][1] for k in sc["nl"]]}
        if sc.get("narrow"):                  # a two-sided band of relative width 1e-6: still two inequalities, not an equality
            cfg["nonlinear_constraints"]["lower_bounds"][0] = -1.0
            cfg["nonlinear_constraints"]["upper_bounds"][0] = -1.0 + 1e-6
    if nlin:
        cfg["linear_constraints"] = {"coefficients": lin_a[:nlin].tolist(), "lower_bounds": [KB[k][0] for k in sc["lin"]],
                                     "upper_bounds": [KB[k][1] for k in sc["lin"]]}

    def evaluator(variables, context):
        cons = variables @ NL_A[:nnl].T + NL_B[:nnl] if nnl else None
        return EvaluatorResult(objectives=variables.sum(axis=1, keepdims=True), constraints=cons)

    e = {"ev": "Handed", "method": method, "mask": sc["mask"], "nl": sc["nl"], "lin": sc["lin"], "options": sc["options"],
         "narrow": bool(sc.get("narrow", False)),
         "maxit": sc["maxit"], "vlb": [q(b) for b in vlb], "vub": [q(b) for b in vub], "grid": GRID, "outcome": "ok",
         "bounds": {"present": False, "lb": [], "ub": []}, "rows": [], "objs": [], "opt": {"maxiter": -1, "maxfun": -1}, "jacseq": []}

    # transforms as an orthogonal switch (every second scenario of the gradient-based / gradient-free methods): the grid
    # points are user-domain points, handed over in optimizer coordinates; recorded bounds are mapped back
    import zlib
    transforms = None
    # (one common scale: unequal scales make the random perturbations anisotropic in optimizer coordinates, and the
    #  truncated SVD of the gradient estimate then drops directions - the Jacobian of an affine function is no longer exact)
    S_, O_ = np.array([2.0, 2.0, 2.0]), np.array([1.0, -1.0, 2.0])
    if method != "differential_evolution" and zlib.crc32(str(sorted(sc.items())).encode()) % 2 == 1:
        from ..transforms_util import make_transforms
        transforms = make_transforms(var_scales=S_, var_offsets=O_, con_scales=[2.0, 4.0, 0.5][:nnl] if nnl else None)
    free_idx = [0] if fix23 else [0, 2] if masked else [0, 1, 2]

    def free_vec(g):
        full = np.array([g[0], 1.0, 0.0 if fix23 else g[1]], dtype=np.float64)
        if transforms is not None:
            full = (full - O_) / S_
        return full[free_idx]

    def script(kw):
        # what SciPy itself does with the arguments: scipy.optimize.minimize ignores `constraints` for every method but
        # COBYLA / SLSQP (a RuntimeWarning only) and `bounds` for CG / BFGS / Newton-CG - handing them over is dropping them
        if Captured.kind == "minimize":
            if method not in ("slsqp", "cobyla"):
                kw = {**kw, "constraints": ()}
            if method in ("cg", "bfgs", "newton-cg"):
                kw = {**kw, "bounds": None}
        b = kw.get("bounds")
        if b is not None:
            lbs, ubs = np.asarray(b.lb, dtype=np.float64), np.asarray(b.ub, dtype=np.float64)
            if transforms is not None and lbs.size == len(free_idx):
                lbs, ubs = lbs * S_[free_idx] + O_[free_idx], ubs * S_[free_idx] + O_[free_idx]
            e["bounds"] = {"present": True, "lb": nums(lbs), "ub": nums(ubs)}
        if Captured.kind == "minimize":
            opts = kw.get("options") or {}
            e["opt"] = {"maxiter": int(opts.get("maxiter", -1)), "maxfun": int(opts.get("maxfun", -1))}
            nfree = len(free_idx)
            base = free_vec([0, 0])
            for c in kw.get("constraints") or []:
                row = {"eq": c["type"] == "eq", "vals": [], "jac0": [], "val0": num(None), "valp": []}
                for g in GRID:
                    row["vals"].append(num(float(np.asarray(c["fun"](free_vec(g))).reshape(-1)[0]), tol=1e-6))
                row["val0"] = num(float(np.asarray(c["fun"](base)).reshape(-1)[0]), tol=1e-6)
                for v in range(nfree):
                    step = base.copy(); step[v] += 1.0
                    row["valp"].append(num(float(np.asarray(c["fun"](step)).reshape(-1)[0]), tol=1e-6))
                if "jac" in c:
                    row["jac0"] = nums(np.asarray(c["jac"](base)).reshape(-1), tol=1e-5)
                e["rows"].append(row)
        else:
            e["opt"] = {"maxiter": int(kw.get("maxiter", -1)), "maxfun": -1}
            for c in kw.get("constraints") or []:
                if hasattr(c, "A"):
                    A = np.atleast_2d(c.A)
                    vals = [nums(A @ free_vec(g), tol=1e-6) for g in GRID]
                elif vectorized:
                    # the vectorized convention of differential_evolution: a (variables, members) matrix per call, one column
                    # per population member - here as many members as there are non-linear constraints (a square result)
                    vals = []
                    for k in range(0, len(GRID), nnl):
                        chunk = GRID[k:k + nnl]
                        while len(chunk) < nnl:
                            chunk = chunk + [GRID[0]]
                        out = np.asarray(c.fun(np.stack([free_vec(g) for g in chunk], axis=1)))
                        vals += [nums(np.atleast_1d(out[:, j]), tol=1e-6) for j in range(min(nnl, len(GRID) - k))]
                else:
                    vals = [nums(np.atleast_1d(c.fun(free_vec(g))), tol=1e-6) for g in GRID]
                e["objs"].append({"vals": vals, "lb": nums(np.atleast_1d(c.lb)), "ub": nums(np.atleast_1d(c.ub))})

    plan = Plan(OptimizerContext(evaluator=evaluator, plugin_manager=manager_with_logging()))
    step = plan.add_step("optimizer")
    with patched(script=script):
        _, outcome = outcome_of(lambda: plan.run_step(step, config=cfg, transforms=transforms))
    if outcome == "exc:NotImplementedError":
        outcome = "rejected"
    e["outcome"] = outcome
    e["jacseq"] = jacobian_sequence(sc["nl"][0], method, with_linear=bool(nlin)) if method == "slsqp" and nnl and sc["nl"][0] != "none" else []
    kinds = set(sc["nl"]) | set(sc["lin"])
    feats = {"nontrivial": bool(len(kinds - {"none"}) >= 2 or (masked and any(k != "none" for k in sc["lin"][:2]))),
             "key": str(sc), "method": method, "options": sc["options"], "maxit": sc["maxit"], "rejected": outcome == "rejected"}
    return [e], feats


def jacobian_sequence(kind, method, with_linear=False):
    """Constraint Jacobians requested at three points in a row (no value request in between), for a QUADRATIC constraint of the
    given bound kind: each must be the derivative at the point it was requested for (compared with central differences of the
    very same handed-over function, which are exact for a quadratic; tolerance for the stochastic estimate)."""
    cfg = {"variables": {"initial_values": [0.0, 1.0, 0.0]}, "optimizer": {"method": "rvscipy/" + method},
           "gradient": {"number_of_perturbations": 6, "perturbation_magnitudes": 0.001},
           "nonlinear_constraints": {"lower_bounds": [KB[kind][0]], "upper_bounds": [KB[kind][1]]}}
    if not with_linear:    # a (very loose) convergence tolerance for the algorithm: no business of the plug-in's point cache
        cfg["optimizer"]["tolerance"] = 5.0
    if with_linear:        # a linear row next to the quadratic constraint (its Jacobian is constant, the quadratic one's is not)
        cfg["linear_constraints"] = {"coefficients": [[1.0, 0.0, 1.0]], "lower_bounds": [-INF], "upper_bounds": [2.0]}

    def evaluator(variables, context):
        return EvaluatorResult(objectives=variables.sum(axis=1, keepdims=True),
                               constraints=(variables[:, 0] ** 2 + variables[:, 1] - 2.0 * variables[:, 2] ** 2)[:, None])
    points = [np.array(p, dtype=np.float64) for p in ([1.0, 1.0, 0.0], [-2.0, 1.0, 1.0], [3.0, 0.0, -1.0])]
    verdicts = []

    def script(kw):
        rows = kw.get("constraints") or []
        jacs = [[np.asarray(c["jac"](p), dtype=np.float64).reshape(-1) for p in points] for c in rows]
        for c, js in zip(rows, jacs):
            for p, j in zip(points, js):
                central = []
                for v in range(3):
                    up, dn = p.copy(), p.copy()
                    up[v] += 1.0; dn[v] -= 1.0
                    central.append((float(np.asarray(c["fun"](up)).reshape(-1)[0]) - float(np.asarray(c["fun"](dn)).reshape(-1)[0])) / 2.0)
                verdicts.append(bool(np.allclose(j, central, atol=0.05)))
    plan = Plan(OptimizerContext(evaluator=evaluator, plugin_manager=manager_with_logging()))
    step = plan.add_step("optimizer")
    with patched(script=script):
        _, outcome = outcome_of(lambda: plan.run_step(step, config=cfg))
    return verdicts if outcome == "ok" and verdicts else [False]


def model_runs(tier):
    if tier == "quick":
        return [{"module": "MC_C08", "constants": {"NNL": 2, "NLIN": 1}},
                {"module": "MC_C08", "constants": {"NNL": 1, "NLIN": 3, "Methods": '{"slsqp", "differential_evolution"}'}},
                # one of the two constraint sets absent (so that a rejection can only come from the other one)
                {"module": "MC_C08", "constants": {"NNL": 2, "NLIN": 0}},
                {"module": "MC_C08", "constants": {"NNL": 0, "NLIN": 2}},
                # no constraints at all: every method accepts the problem, so options / max_iterations forwarding is seen for each
                {"module": "MC_C08", "constants": {"NNL": 0, "NLIN": 0, "Methods": '{"slsqp", "cobyla", "l-bfgs-b", "tnc", "nelder-mead", "powell", "bfgs", "cg", "newton-cg"}'}}]
    return [{"module": "MC_C08", "constants": {"NNL": 2, "NLIN": 2, "Methods": '{"slsqp", "cobyla", "differential_evolution"}'}, "heap": "8g"},
            {"module": "MC_C08", "constants": {"NNL": 3, "NLIN": 1, "Methods": '{"slsqp", "differential_evolution"}'}, "heap": "8g"},
            {"module": "MC_C08", "constants": {"NNL": 1, "NLIN": 3, "Methods": '{"slsqp", "cobyla"}'}, "heap": "8g"},
            {"module": "MC_C08", "constants": {"NNL": 2, "NLIN": 1,
                                               "Methods": '{"l-bfgs-b", "tnc", "nelder-mead", "powell", "bfgs", "cg", "newton-cg"}'}},
            {"module": "MC_C08", "constants": {"NNL": 3, "NLIN": 0,
                                               "Methods": '{"slsqp", "cobyla", "l-bfgs-b", "tnc", "nelder-mead", "powell", "bfgs", "cg", "newton-cg"}'}},
            {"module": "MC_C08", "constants": {"NNL": 0, "NLIN": 0, "Methods": '{"slsqp", "cobyla", "differential_evolution", "l-bfgs-b", "tnc", "nelder-mead", "powell", "bfgs", "cg", "newton-cg"}'}},
            {"module": "MC_C08", "constants": {"NNL": 0, "NLIN": 3,
                                               "Methods": '{"slsqp", "cobyla", "l-bfgs-b", "tnc", "nelder-mead", "powell", "bfgs", "cg", "newton-cg"}'}}]


CHECK = PropertyCheck(
    prop="C08", trace_module="Trace_C08", drive=drive, model_runs=model_runs,
    rule=("TLC enumerates every combination of constraint kinds {eq, lower, upper, two-sided, unbounded} over the non-linear and linear "
          "constraints (2+1, 1+3, 2+0 and 0+2 quick; 2+2, 3+1, 1+3, 3+0, 0+3 thorough) x method x mask x options in {None, {}, dict} x max_iterations, checking the "
          "normalisation against configured feasibility; the arguments captured from the plug-in are evaluated on a 4x4 integer grid and "
          "compared with the configured problem by Trace_C08 (bounds object, rows or constraint objects, Jacobian = derivative, iteration "
          "limit). Non-trivial: >=2 different kinds, or a mask with a retained linear row."),
    assumptions=["affine integer constraint functions; the stochastic gradient of an affine function is exact up to rounding",
                 "linear rows with a coefficient on a fixed variable are not 'retained' and excluded from the equivalence",
                 "a NotImplementedError for a method other than slsqp / differential_evolution counts as rejection",
                 "the scripted SciPy client ignores what SciPy ignores: constraints for methods other than COBYLA/SLSQP, bounds for "
                 "CG/BFGS/Newton-CG"],
    trace_chunk=600,
)
