"""C11 - scaling transforms change optimizer coordinates only, not user-domain behaviour."""
from __future__ import annotations

import numpy as np

from ropt.config.enopt import EnOptConfig
from ropt.enums import BoundaryType, EventType, PerturbationType
from ropt.evaluator import EvaluatorResult
from ropt.plan import OptimizerContext, Plan
from ropt.results import FunctionResults, GradientResults

from ..core import PropertyCheck, num, nums
from .. import graddrive
from ..graddrive import DesignPlugin
from ..ropt_util import ScriptPlugin, exit_name, outcome_of
from ..transforms_util import make_transforms

INF_Q = 1000000
DESIGN = [[1, 0], [0, 1], [-12, 20]]
R = 2


def f(b):
    return float("inf") if b >= INF_Q else float("-inf") if b <= -INF_Q else float(b)


def user_config(sc, as_objects=False):
    cfg = _user_config(sc)
    if as_objects:          # sections the caller validated beforehand as objects of their own
        from ropt.config.enopt import LinearConstraintsConfig, NonlinearConstraintsConfig, RealizationsConfig, VariablesConfig
        for key, cls in (("variables", VariablesConfig), ("linear_constraints", LinearConstraintsConfig),
                         ("nonlinear_constraints", NonlinearConstraintsConfig), ("realizations", RealizationsConfig)):
            if key in cfg:
                cfg[key] = cls.model_validate(cfg[key])
    return cfg


def _user_config(sc):
    cfg = _full_config(sc)
    if sc.get("bnd") == "none":          # no variable bounds and no non-linear constraints: only linear differences are reported
        cfg.pop("nonlinear_constraints")
        cfg["variables"] = {"initial_values": cfg["variables"]["initial_values"]}
    return cfg


def _full_config(sc):
    rel = sc["ptype"] == "rel"
    return {
        "variables": {"initial_values": [float(v) for v in sc["x"]], "lower_bounds": [f(b) for b in sc["lb"]],
                      "upper_bounds": [f(b) for b in sc["ub"]]},
        "linear_constraints": {"coefficients": [[float(a) for a in sc["a"]]], "lower_bounds": [f(sc["l"])],
                               "upper_bounds": [f(sc["u"]) + (2.0 ** -12 if sc.get("nar") else 0.0)]},
        "nonlinear_constraints": {"lower_bounds": [float("-inf")], "upper_bounds": [4.0]},
        "realizations": {"weights": [1.0, 3.0]},
        "gradient": {"number_of_perturbations": 3, "perturbation_magnitudes": 0.125 if rel else 0.25,
                     "perturbation_types": int(PerturbationType.RELATIVE if rel else PerturbationType.ABSOLUTE),
                     "boundary_types": [int(BoundaryType.MIRROR_BOTH), int(BoundaryType.TRUNCATE_BOTH)]},
        "samplers": [{"method": "rvdesign/design", "shared": True}],
        "optimizer": {"method": "rvscript/script", "options": {"script": [{"f": True, "g": True, "x": None}]}},
    }


def transforms_of(sc):
    scales = [s[0] / s[1] for s in sc["s"]]
    fs = sc["fs"][0] / sc["fs"][1]
    which = sc.get("which", "all")
    tr = make_transforms(scales if which in ("all", "vars", "scal") else None,
                         [float(o) for o in sc["o"]] if which in ("all", "vars", "offs") else None,
                         [fs] if which in ("all", "obj") else None, [fs] if which in ("all", "con") else None)
    if which in ("all", "vars", "scal") and all(s[1] == 1 for s in sc["s"]) and sum(sc["x"]) % 2 == 0:
        # whole-number scales (and offsets) spelled as INTEGER arrays: the same transform
        from ropt.transforms import OptModelTransforms, VariableScaler
        tr = OptModelTransforms(variables=VariableScaler(np.array([s[0] for s in sc["s"]], dtype=np.int64),
                                                         np.array(sc["o"], dtype=np.int64) if which in ("all", "vars") else None),
                                objectives=tr.objectives, nonlinear_constraints=tr.nonlinear_constraints)
    return tr


def run(sc, transforms):
    DesignPlugin.design = [DESIGN] * R
    rows, seen = [], []

    def evaluator(variables, context):
        perts = context.perturbations
        for i in range(variables.shape[0]):
            rows.append((int(context.realizations[i]), -1 if perts is None else int(perts[i]), variables[i].copy()))
        r = context.realizations.astype(np.float64)
        obj = (variables[:, 0] + 2.0 * variables[:, 1] + r)[:, None]
        if sc.get("fail"):                      # every realization fails: functions are not reported
            obj = np.full_like(obj, np.nan)
        return EvaluatorResult(objectives=obj, constraints=None if sc.get("bnd") == "none" else (variables[:, 0] - variables[:, 1] + r)[:, None])

    pm = graddrive.manager()
    pm.add_plugin("optimizer", "rvscript", ScriptPlugin())
    ctx = OptimizerContext(evaluator=evaluator, plugin_manager=pm)
    ctx.add_observer(EventType.FINISHED_EVALUATION, lambda e: seen.extend(e.data["results"]))
    plan = Plan(ctx)
    step = plan.add_step("optimizer")
    # with transforms, every second scenario hands the sections over as validated objects (and keeps them for a second use)
    as_objects = transforms is not None and (sum(sc["x"]) + sc["l"] + sc["a"][1]) % 2 == 0
    config = user_config(sc, as_objects)
    if transforms is not None and transforms.variables is not None and "linear_constraints" in config:
        # the transform object served another configuration before (one linear row as well, other coefficients)
        earlier = user_config(sc)
        earlier["linear_constraints"] = {"coefficients": [[7.0, -3.0]], "lower_bounds": [-1.0], "upper_bounds": [5.0]}
        EnOptConfig.model_validate(earlier, context=transforms)
    if as_objects:
        EnOptConfig.model_validate(config, context=transforms)
    code, outcome = outcome_of(lambda: plan.run_step(step, config=config, transforms=transforms))
    fr = next((r for r in seen if isinstance(r, FunctionResults)), None)
    gr = next((r for r in seen if isinstance(r, GradientResults)), None)
    rows.sort(key=lambda t: (t[0], t[1]))
    proj = {"outcome": exit_name(code) if outcome == "ok" else outcome, "rows": nums(np.concatenate([r[2] for r in rows]) if rows else []),
            "vars": [], "pert": [], "real": [], "funs": [], "diffs": [], "viols": []}
    if fr is not None and fr.functions is None:
        # failed evaluation: what is still reported (variables, bound and linear differences) must coincide as well
        ci = fr.constraint_info
        proj["vars"] = nums(fr.evaluations.variables)
        proj["diffs"] = [] if ci is None else nums(np.concatenate([x for x in (ci.bound_lower, ci.bound_upper, ci.linear_lower, ci.linear_upper)
                                                                    if x is not None]))
        proj["viols"] = [] if ci is None else nums(np.concatenate([x for x in (ci.bound_violation, ci.linear_violation) if x is not None]))
    if fr is not None and fr.functions is not None and gr is not None:
        ci = fr.constraint_info
        proj["vars"] = nums(fr.evaluations.variables)
        proj["pert"] = nums(gr.evaluations.perturbed_variables.reshape(-1))
        cat = lambda *arrs: np.concatenate([np.asarray(a, dtype=np.float64).reshape(-1) for a in arrs if a is not None])  # noqa: E731
        proj["real"] = nums(cat(fr.evaluations.objectives, fr.evaluations.constraints,
                                gr.evaluations.perturbed_objectives, gr.evaluations.perturbed_constraints))
        proj["funs"] = nums(cat(np.atleast_1d(fr.functions.weighted_objective), fr.functions.objectives, fr.functions.constraints))
        proj["diffs"] = nums(cat(ci.bound_lower, ci.bound_upper, ci.linear_lower, ci.linear_upper, ci.nonlinear_lower, ci.nonlinear_upper))
        proj["viols"] = nums(cat(ci.bound_violation, ci.linear_violation, ci.nonlinear_violation))
    return proj


def drive(sc):
    scales = [s[0] / s[1] for s in sc["s"]]
    transforms = transforms_of(sc)
    plain = run(sc, None)
    trans = run(sc, transforms)
    cfg_plain = EnOptConfig.model_validate(user_config(sc))
    cfg_opt = EnOptConfig.model_validate(user_config(sc), context=transforms_of(sc))
    x = np.array(sc["x"], dtype=np.float64)
    e = {"ev": "Pair", "bnd": sc.get("bnd", "finite"), **{k: sc[k] for k in ("s", "o", "fs", "a", "l", "u", "x", "lb", "ub", "ptype")}, "nar": int(sc.get("nar", 0)),
         "plain": plain, "trans": trans,
         "which": sc.get("which", "all"), "fail": bool(sc.get("fail", False)),
         "roundtrip": nums(x if transforms.variables is None else transforms.variables.from_optimizer(transforms.variables.to_optimizer(x))),
         "cfgplain": {"magn": nums(cfg_plain.gradient.perturbation_magnitudes)},
         "cfgopt": {"lb": nums(cfg_opt.variables.lower_bounds), "ub": nums(cfg_opt.variables.upper_bounds),
                    "coef": nums(cfg_opt.linear_constraints.coefficients[0]), "ll": num(cfg_opt.linear_constraints.lower_bounds[0]),
                    "lu": num(cfg_opt.linear_constraints.upper_bounds[0]), "magn": nums(cfg_opt.gradient.perturbation_magnitudes)}}
    nontriv = any(s != [1, 1] for s in sc["s"]) or any(sc["o"])
    return [e], {"nontrivial": bool(nontriv), "key": str(sc), "ptype": sc["ptype"]}


def model_runs(tier):
    return [{"module": "MC_C11"}]


CHECK = PropertyCheck(
    prop="C11", trace_module="Trace_C11", drive=drive, model_runs=model_runs,
    rule=("TLC checks the theorems of Transforms.tla (round trip, bound and linear-row feasibility equivalence on a grid, "
          "back-transformed differences) for dyadic variable scales x offsets x objective/constraint scales x finite/infinite bounds x "
          "linear rows of every bound kind x absolute/relative perturbations x points; every scenario is run twice on a real plan (a "
          "function + gradient evaluation with injected integer samples incl. overshoots, mirror/truncate boundary types), without and "
          "with the transforms, and Trace_C11 requires identical evaluator vectors and user-domain results and the transformed "
          "configuration to be the spec's image. Non-trivial: a scale != 1 or an offset != 0."),
    assumptions=["dyadic scales and integer offsets make float arithmetic exact up to 1e-7",
                 "gradients are not part of the statement (they are reported with respect to optimizer coordinates)"],
)
