"""Whole-run validation against spec/Ropt.tla: repository-like scenarios (Rosenbrock ensembles, constraints, masks,
filters, failures, budgets, aborts, sequential steps, population methods) recorded with rv.recorder.RunRecorder."""
from __future__ import annotations

import copy

import numpy as np

from ropt.evaluator import EvaluatorResult
from ropt.plan import Plan

from ..core import PropertyCheck
from ..recorder import RunRecorder
from ..transforms_util import make_transforms

INF = float("inf")
DIM = 3


def make_evaluator(spec):
    rng = np.random.default_rng(spec.get("eseed", 3))
    R = spec["R"]
    a = rng.normal(1.0, 0.1, R); b = rng.normal(100.0, 5.0, R)
    state = {"n": 0}
    nobj, ncon = spec.get("nobj", 1), spec.get("ncon", 0)

    def evaluator(variables, context):
        state["n"] += 1
        out = np.zeros((variables.shape[0], nobj))
        for i, r in enumerate(context.realizations):
            x = variables[i]
            val = sum((a[r] - x[d]) ** 2 + b[r] * (x[d + 1] - x[d] ** 2) ** 2 for d in range(DIM - 1))
            out[i, 0] = val
            if nobj > 1:
                out[i, 1] = ((x - 0.5) ** 2).sum() + 0.1 * r
        cons = None
        if ncon:
            cons = np.stack([variables[:, 0] + variables[:, 2]] + ([variables[:, 1] * variables[:, 2]] if ncon > 1 else []), axis=1)
        for vec in spec.get("failvec", {}).get(state["n"], ()):       # every realization of one vector of a batch fails
            out[np.arange(variables.shape[0]) // R == vec] = np.nan
        for r in spec.get("failpert", {}).get(state["n"], ()):      # every perturbation of one realization fails
            if context.perturbations is not None:
                out[(context.realizations == r) & (context.perturbations >= 0)] = np.nan
        failcalls = spec.get("failcalls", {})
        if state["n"] in failcalls:
            for r in failcalls[state["n"]]:
                out[context.realizations == r] = np.nan
        if spec.get("randfail"):
            bad = np.random.default_rng(1000 + state["n"]).random(variables.shape[0]) < spec["randfail"]
            out[bad] = np.nan
        return EvaluatorResult(objectives=out, constraints=cons)
    return evaluator


def base(R=3, **over):
    cfg = {"variables": {"initial_values": [0.5, 1.2, 1.9]},
           "realizations": {"weights": [1.0] * R},
           "optimizer": {"method": "slsqp", "tolerance": 1e-5, "max_functions": 12},
           "gradient": {"number_of_perturbations": 4, "perturbation_magnitudes": 0.01}}
    for k, v in over.items():
        cfg[k] = {**cfg.get(k, {}), **v}
    return cfg


def catalogue():
    runs = []
    add = lambda name, spec, steps, **kw: runs.append({"name": name, "spec": spec, "steps": steps, **kw})  # noqa: E731
    add("rosenbrock_ensemble", {"R": 3}, [("optimizer", base())])
    add("deterministic", {"R": 1}, [("optimizer", base(1))])
    add("two_objectives", {"R": 3, "nobj": 2}, [("optimizer", base(objectives={"weights": [0.75, 0.25]}))])
    add("bounds_lbfgsb", {"R": 2}, [("optimizer", base(2, variables={"lower_bounds": [0.0] * 3, "upper_bounds": [1.0, 2.0, 2.5]},
                                                        optimizer={"method": "l-bfgs-b"}))])
    add("nonlinear_constraint", {"R": 2, "ncon": 1}, [("optimizer", base(2, nonlinear_constraints={"lower_bounds": [-INF], "upper_bounds": [2.0]}))])
    add("linear_constraint", {"R": 2}, [("optimizer", base(2, linear_constraints={"coefficients": [[1.0, 0.0, 1.0]], "lower_bounds": [-INF],
                                                                                 "upper_bounds": [2.0]}))])
    add("mask", {"R": 2}, [("optimizer", base(2, variables={"mask": [True, False, True]}))])
    add("mask_two_samplers", {"R": 2}, [("optimizer", {**base(2, variables={"mask": [True, False, True]}, gradient={"samplers": [0, 0, 1]}),
                                                       "samplers": [{"method": "norm"}, {"method": "uniform"}]})])
    add("cvar_filter", {"R": 4}, [("optimizer", {**base(4, objectives={"weights": [1.0], "realization_filters": [0]}),
                                                 "realization_filters": [{"method": "cvar-objective", "options": {"sort": [0], "percentile": 0.5}}]})])
    add("sort_filter", {"R": 4}, [("optimizer", {**base(4, objectives={"weights": [1.0], "realization_filters": [0]}),
                                                 "realization_filters": [{"method": "sort-objective", "options": {"sort": [0], "first": 1, "last": 2}}]})])
    add("stddev", {"R": 4, "nobj": 2}, [("optimizer", {**base(4, objectives={"weights": [0.8, 0.2], "function_estimators": [0, 1]}),
                                                       "function_estimators": [{"method": "mean"}, {"method": "stddev"}]})])
    # (strict: nothing but the threshold can make an evaluation fail in these configurations)
    add("failures_tolerated", {"R": 4, "failcalls": {2: [1], 3: [0, 2]}}, [("optimizer", base(4, realizations={"realization_min_success": 2}))], strict=True)
    # ... with configured but unreferenced realization filters whose windows the failures leave empty: nobody uses them
    add("failures_tolerated_unused_filters", {"R": 4, "failcalls": {2: [1], 3: [0, 2]}},
        [("optimizer", {**base(4, realizations={"realization_min_success": 2}, objectives={"weights": [1.0], "realization_filters": [1]}),
                        "realization_filters": [{"method": "sort-objective", "options": {"sort": [0], "first": 3, "last": 3}},
                                                {"method": "sort-objective", "options": {"sort": [0], "first": 0, "last": 1}},
                                                {"method": "sort-objective", "options": {"sort": [0], "first": 2, "last": 3}}]})], strict=True)
    add("failure_too_few", {"R": 3, "failcalls": {3: [0, 1]}}, [("optimizer", base(3, realizations={"realization_min_success": 2}))], strict=True)
    add("random_failures", {"R": 5, "randfail": 0.15}, [("optimizer", base(5, realizations={"realization_min_success": 3},
                                                                             gradient={"perturbation_min_success": 2}))])
    add("budget", {"R": 2}, [("optimizer", base(2, optimizer={"max_functions": 3}))])
    add("speculative", {"R": 2}, [("optimizer", base(2, optimizer={"speculative": True, "max_functions": 5}))])
    add("split", {"R": 2}, [("optimizer", base(2, optimizer={"split_evaluations": True, "max_functions": 5}))])
    add("merged", {"R": 3}, [("optimizer", base(3, gradient={"merge_realizations": True}))])
    add("nelder_mead", {"R": 2}, [("optimizer", base(2, optimizer={"method": "nelder-mead", "max_functions": 15}))])
    add("cobyla_constraint", {"R": 2, "ncon": 1}, [("optimizer", base(2, optimizer={"method": "cobyla", "max_functions": 15},
                                                                        nonlinear_constraints={"lower_bounds": [-INF], "upper_bounds": [2.0]}))])
    add("de_serial", {"R": 2}, [("optimizer", base(2, variables={"lower_bounds": [0.0] * 3, "upper_bounds": [2.0] * 3},
                                                   optimizer={"method": "differential_evolution", "max_functions": 10,
                                                              "options": {"seed": 2, "popsize": 2, "maxiter": 2}}))])
    add("de_parallel", {"R": 2}, [("optimizer", base(2, variables={"lower_bounds": [0.0] * 3, "upper_bounds": [2.0] * 3},
                                                     optimizer={"method": "differential_evolution", "max_functions": 10, "parallel": True,
                                                                "options": {"seed": 2, "popsize": 2, "maxiter": 2}}))], batch=6)
    # a NaN-tolerant method with realization_min_success = 0: an evaluation in which every realization fails does not end the
    # run, however the method is spelled
    for tag, spelled in (("bare", "differential_evolution"), ("qualified", "scipy/differential_evolution"), ("capitals", "SciPy/Differential_Evolution")):
        add(f"de_all_failed_tolerated_{tag}", {"R": 2, "failcalls": {2: [0, 1]}},
            [("optimizer", base(2, variables={"lower_bounds": [0.0] * 3, "upper_bounds": [2.0] * 3},
                                realizations={"realization_min_success": 0},
                                optimizer={"method": spelled, "max_functions": 8, "options": {"seed": 2, "popsize": 2, "maxiter": 2}}))])
    add("user_abort", {"R": 2}, [("optimizer", base(2)), ("optimizer", base(2))], abort_at_eval=3)
    add("sequential", {"R": 2}, [("optimizer", base(2, optimizer={"max_functions": 4})), ("optimizer", base(2, optimizer={"max_functions": 4}))])
    add("evaluator_step", {"R": 3}, [("evaluator", {k: v for k, v in base().items() if k != "optimizer"})])
    add("evaluator_step_failed", {"R": 3, "failcalls": {1: [0, 1, 2]}}, [("evaluator", {k: v for k, v in base().items() if k != "optimizer"})])
    # a realization that fails only in a gradient evaluation: the stddev estimator is then left with a single realization
    for call in (2, 4):
        add(f"stddev_runs_out_in_gradient_{call}", {"R": 2, "nobj": 2, "failpert": {call: [1]}},
            [("optimizer", {**base(2, objectives={"weights": [0.8, 0.2], "function_estimators": [0, 1]},
                                   realizations={"realization_min_success": 1}),
                            "function_estimators": [{"method": "mean"}, {"method": "stddev"}]})])
        add(f"mean_survives_gradient_failure_{call}", {"R": 2, "failpert": {call: [1]}},
            [("optimizer", base(2, realizations={"realization_min_success": 1}))])
    # batches of vectors through the evaluator step, with transforms and failing vectors
    evcfg = {k: v for k, v in base().items() if k != "optimizer"}
    batch = [[0.5, 1.2, 1.9], [1.0, 1.0, 1.0], [0.9, 0.8, 0.7]]
    scaled = {"var_scales": [2.0, 0.5, 1.0], "var_offsets": [0.1, 0.0, -0.2], "obj_scales": [10.0]}
    add("evaluator_batch", {"R": 3}, [("evaluator", evcfg, {"variables": batch})], batch=3)
    add("evaluator_batch_transforms", {"R": 3}, [("evaluator", evcfg, {"variables": batch, "transforms": scaled})], batch=3)
    for n, vecs in enumerate(([0], [1], [2], [0, 2]), start=1):
        add(f"evaluator_batch_failed_{n}", {"R": 3, "failvec": {1: vecs}}, [("evaluator", evcfg, {"variables": batch})], batch=3)
        add(f"evaluator_batch_failed_transforms_{n}", {"R": 3, "failvec": {1: vecs}},
            [("evaluator", evcfg, {"variables": batch, "transforms": scaled})], batch=3)
    add("optimizer_transforms", {"R": 2}, [("optimizer", base(2), {"transforms": scaled})])
    add("optimizer_transforms_constraint", {"R": 2, "ncon": 1},
        [("optimizer", base(2, nonlinear_constraints={"lower_bounds": [-INF], "upper_bounds": [2.0]}),
          {"transforms": {**scaled, "con_scales": [4.0]}})])
    add("optimizer_transforms_failure", {"R": 3, "failcalls": {3: [0, 1]}},
        [("optimizer", base(3, realizations={"realization_min_success": 2}), {"transforms": scaled})])
    return runs


def drive(sc):
    run = catalogue()[sc["index"]]
    rec = RunRecorder(make_evaluator(run["spec"]), abort_at_eval=run.get("abort_at_eval", 0))
    plan = Plan(rec.context)
    steps = [plan.add_step(item[0]) for item in run["steps"]]
    tracker = plan.add_handler("tracker", what="best", constraint_tolerance=1e-10, sources=set(steps))
    store = plan.add_handler("store", sources=set(steps))
    for n, (step, item) in enumerate(zip(steps, run["steps"]), start=1):
        kw = dict(item[2]) if len(item) > 2 else {}
        if "transforms" in kw:
            kw["transforms"] = make_transforms(**kw["transforms"])
        if "variables" in kw:
            kw["variables"] = np.array(kw["variables"], dtype=np.float64)
        rec.run_step(plan, step, copy.deepcopy(item[1]), tracked=True, batch=run.get("batch", 1), strict=bool(run.get("strict")), metadata={"tag": 10 * n, "list": [n]}, **kw)
    rec.store(plan.get(store, "results"))
    rec.best(plan.get(tracker, "results"))
    trace = rec.finish()
    return trace, {"nontrivial": True, "key": run["name"], "name": run["name"], "events": len(trace)}


def scenarios(tier, seed):
    return [{"index": i} for i in range(len(catalogue()))]


CHECK = PropertyCheck(
    prop="ROPT", trace_module="Ropt", drive=drive, model_runs=lambda tier: [], extra_scenarios=scenarios,
    rule="Recorded whole runs of repository-like scenarios validated against the composed monitor spec/Ropt.tla.",
    exhaustive_claim=False, pool=8, trace_chunk=4,
)
