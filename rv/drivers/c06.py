"""C06 - evaluator requests are complete and correctly labelled; inactive entries inert; ownership."""
from __future__ import annotations

import hashlib
import json

import numpy as np

from ropt.config.enopt import EnOptConfig
from ropt.ensemble_evaluator import EnsembleEvaluator
from ropt.evaluator import EvaluatorResult
from ropt.results import FunctionResults, GradientResults

from ..core import PropertyCheck, num, nums
from ..graddrive import DesignPlugin, manager
from ..ropt_util import outcome_of
from ..transforms_util import make_transforms

INF = float("inf")
POINTS = {1: [1.0, 2.0], 2: [3.0, 1.0], 3: [1.0 * (1 + 4e-6), 2.0 * (1 + 4e-6)]}   # optimizer-domain points; 3 is "near 1"
SCALE, OFFSET = [2.0, 4.0], [1.0, -1.0]


def code(b, r, p, f):
    return 1000 * b + 100 * r + 10 * p + f


def build_config(cfg, transforms):
    R, P = cfg["R"], cfg["P"]
    c = {
        "variables": {"initial_values": [1.0, 2.0]},
        "realizations": {"weights": [float(w) for w in cfg["rw"]], "realization_min_success": 1},
        "objectives": {"weights": [1.0, 1.0]},
        "nonlinear_constraints": {"lower_bounds": [-INF], "upper_bounds": [1e9]},
        "gradient": {"number_of_perturbations": P, "perturbation_magnitudes": 0.25},
        "samplers": [{"method": "rvdesign/design", "shared": True}],
        "realization_filters": [
            {"method": "sort-objective", "options": {"sort": [0], "first": 0, "last": 0 if R == 1 else R - 2}},
            {"method": "cvar-objective", "options": {"sort": [1], "percentile": 0.5}}],
    }
    f = cfg["filt"]
    if f == "sortobj":
        c["objectives"]["realization_filters"] = [0, -1]
        c["nonlinear_constraints"]["realization_filters"] = [-1]
    elif f == "sortobj2":        # the FIRST objective unfiltered, the second one filtered (the position of the filtered row matters)
        c["objectives"]["realization_filters"] = [-1, 0]
        c["nonlinear_constraints"]["realization_filters"] = [-1]
    elif f == "sortobjcon":      # the first objective and the constraint share the sort filter, the second objective is unfiltered:
        c["objectives"]["realization_filters"] = [0, -1]       # a realization outside the window is active for ONE function only
        c["nonlinear_constraints"]["realization_filters"] = [0]
    elif f == "cvarobj":
        c["objectives"]["realization_filters"] = [1, 1]
        c["nonlinear_constraints"]["realization_filters"] = [-1]
    elif f == "cononly":
        c["nonlinear_constraints"]["realization_filters"] = [0]
    elif f == "conmixed":        # objectives explicitly unfiltered (all weights non-zero), the constraint filtered
        c["objectives"]["realization_filters"] = [-1, -1]
        c["nonlinear_constraints"]["realization_filters"] = [0]
    if transforms is not None:
        # user-domain initial values such that the optimizer-domain start is POINTS[1]
        c["variables"]["initial_values"] = [x * s + o for x, s, o in zip(POINTS[1], SCALE, OFFSET)]
    return EnOptConfig.model_validate(c, context=transforms)


class LabelEvaluator:
    """Returns code(b, r, p, f) for the row labelled (b, r, p); garbage in entries flagged inactive;
    optionally memoises arrays / the whole result object per request signature."""

    def __init__(self, cfg, garbage, nanreal):
        self.R, self.memo, self.garbage, self.nanreal = cfg["R"], cfg["memo"], garbage, nanreal
        self.pt = 1                # the point of the current call: at point 2 the realizations swap their values (r <-> R+1-r)
        self.calls = []            # per call: dict(labels, uvars, active)
        self.memo_store = {}
        self.buffers = []
        self.owned = []            # (name, object/array, pristine copy, holder, attr)

    def __call__(self, variables, context):
        R = self.R
        n = variables.shape[0]
        perts = context.perturbations
        labels = []
        for i in range(n):
            r = int(context.realizations[i]) + 1
            p = 0 if perts is None or perts[i] < 0 else int(perts[i]) + 1
            if perts is None:
                b = i // R + 1
            else:
                b = 1
            labels.append([b, r, p])
        act = None
        if context.active_objectives is not None or context.active_constraints is not None:
            ao = context.active_objectives if context.active_objectives is not None else np.ones((2, R), dtype=bool)
            ac = context.active_constraints if context.active_constraints is not None else np.ones((1, R), dtype=bool)
            act = np.vstack([ao, ac]).astype(bool)
        self.calls.append({"labels": labels, "uvars": variables.copy(), "active": act,
                           "summary": None if context.active is None else [bool(v) for v in context.active]})
        sig = (n, perts is None, tuple(map(tuple, labels)), self.pt)
        if self.memo in ("arrays", "object") and sig in self.memo_store:
            stored = self.memo_store[sig]
            return stored if self.memo == "object" else EvaluatorResult(objectives=stored.objectives, constraints=stored.constraints,
                                                                       evaluation_info=stored.evaluation_info)
        rr = (lambda r: R + 1 - r) if self.pt == 2 else (lambda r: r)
        vals = np.array([[code(b, rr(r), p, f) for f in (1, 2, 3)] for b, r, p in labels], dtype=np.float64)
        if act is not None:
            for i, (b, r, p) in enumerate(labels):
                for f in range(3):
                    if not act[f, r - 1]:
                        vals[i, f] = self.garbage * (1 + i + f)
        if self.nanreal:
            for i, (b, r, p) in enumerate(labels):
                if r == self.nanreal and p == 0:
                    vals[i, 0] = np.nan
        objs, cons = vals[:, :2].copy(), vals[:, 2:].copy()
        tag = np.array([code(b, rr(r), p, 0) for b, r, p in labels], dtype=np.float64)
        if self.memo == "roviews":          # the evaluator hands out read-only views of buffers it keeps re-using
            self.buffers += [objs, cons, tag]
            objs, cons, tag = objs.view(), cons.view(), tag.view()
            for a in (objs, cons, tag):
                a.flags.writeable = False
        res = EvaluatorResult(objectives=objs, constraints=cons, evaluation_info={"tag": tag}, batch_id=len(self.calls))
        k = len(self.calls)
        self.owned += [(f"call{k}.objectives", res.objectives, res.objectives.copy(), res, "objectives"),
                       (f"call{k}.constraints", res.constraints, res.constraints.copy(), res, "constraints"),
                       (f"call{k}.info", res.evaluation_info["tag"], res.evaluation_info["tag"].copy(), res.evaluation_info, "tag"),
                       (f"call{k}.infodict", res.evaluation_info, None, res, "evaluation_info")]
        if self.memo in ("arrays", "object"):
            self.memo_store[sig] = res
        return res

    def mutated(self):
        out = []
        for name, arr, pristine, holder, attr in self.owned:
            if isinstance(arr, dict):             # the evaluation_info dictionary itself: same object, same keys
                if getattr(holder, attr) is not arr:
                    out.append(name + ":rebound")
                if sorted(arr) != ["tag"]:
                    out.append(name + ":keys")
                continue
            if arr.shape != pristine.shape or not np.array_equal(arr, pristine, equal_nan=True):
                out.append(name + ":content")
            if holder is not None and (holder.get(attr) if isinstance(holder, dict) else getattr(holder, attr)) is not arr:
                out.append(name + ":rebound")
        return sorted(set(out))


def _user(results, transforms):
    return [r if transforms is None else r.transform_from_optimizer(transforms) for r in results]


def run(sc, garbage):
    cfg = sc["cfg"]
    transforms = make_transforms(SCALE, OFFSET, [2.0, 4.0], [2.0]) if cfg["tf"] else None
    if transforms is None and (cfg["R"] + cfg["P"] + len(sc["calls"])) % 2 == 0:
        # a transform object that scales the non-linear constraint ONLY (variables and objectives are left alone, so the
        # variable clauses of the validator see an untransformed run)
        transforms = make_transforms(con_scales=[2.0])
    DesignPlugin.design = [[[((p + 1) if v == 0 else -(p + 2)) for v in range(2)] for p in range(cfg["P"])]] * cfg["R"]
    config = build_config(cfg, transforms)
    ev = LabelEvaluator(cfg, garbage, sc.get("nanreal", 0))
    ee = EnsembleEvaluator(config, transforms, ev, manager())
    events, sigs, snapshots = [], [], []
    R, P = cfg["R"], cfg["P"]
    for call in sc["calls"]:
        k, pt, batch = call["k"], call["pt"], call["batch"]
        x = np.array(POINTS[pt])
        if k == "F" and batch > 1:
            x = np.array([POINTS[1], POINTS[2]][:batch])
        before = len(ev.calls)
        ev.pt = pt
        res, outcome = outcome_of(lambda: ee.calculate(x, compute_functions=k in ("F", "FG"), compute_gradients=k in ("G", "FG")))
        ncalls = len(ev.calls) - before
        e = {"ev": "Call", "k": k, "pt": pt, "batch": batch, "R": R, "P": P, "tf": bool(cfg["tf"]), "outcome": outcome,
             "nanreal": int(sc.get("nanreal", 0)),
             "ncalls": ncalls, "reqkind": "none", "labels": [], "uvars": [], "ovars": [], "active": [], "summary": [], "values": [],
             "weights": [[num(1.0)] * R] * 3, "failedrow": [False] * R, "batchok": True}
        if outcome == "ok" and ncalls == 1:
            c = ev.calls[-1]
            labels = c["labels"]
            has_f = any(p == 0 for _, _, p in labels); has_g = any(p > 0 for _, _, p in labels)
            e["reqkind"] = "FG" if has_f and has_g else "F" if has_f else "G"
            e["labels"] = labels
            e["uvars"] = nums(c["uvars"], exact=(pt != 3))
            e["active"] = [] if c["active"] is None else [[bool(v) for v in row] for row in c["active"]]
            e["summary"] = [] if c["summary"] is None else c["summary"]
            fr = [r for r in res if isinstance(r, FunctionResults)]
            gr = next((r for r in res if isinstance(r, GradientResults)), None)
            ures = _user(res, transforms)
            ufr = [r for r in ures if isinstance(r, FunctionResults)]
            ugr = next((r for r in ures if isinstance(r, GradientResults)), None)
            ovars, values = [], []
            for b, r, p in labels:
                try:
                    if p == 0:
                        ovars.append(nums(fr[b - 1].evaluations.variables, exact=(pt != 3)))
                    else:
                        ovars.append(nums(gr.evaluations.perturbed_variables[r - 1, p - 1], exact=(pt != 3)))
                except (IndexError, AttributeError):       # a label that addresses no reported row
                    ovars.append([num(None), num(None)])
            e["ovars"] = ovars
            # evaluation_info is routed by label as well (function index 0 in the code)
            for b, fres in enumerate(ufr, start=1):
                tag = fres.evaluations.evaluation_info.get("tag")
                for r in range(R):
                    values.append({"b": b, "r": r + 1, "p": 0, "f": 0, "val": num(None if tag is None else tag[r])})
            if ugr is not None:
                tag = ugr.evaluations.evaluation_info.get("tag")
                for r in range(R):
                    for p in range(P):
                        values.append({"b": 1, "r": r + 1, "p": p + 1, "f": 0, "val": num(None if tag is None else tag[r, p])})
            for b, fres in enumerate(ufr, start=1):
                for r in range(R):
                    for f in range(3):
                        v = fres.evaluations.objectives[r, f] if f < 2 else fres.evaluations.constraints[r, 0]
                        values.append({"b": b, "r": r + 1, "p": 0, "f": f + 1, "val": num(v)})
            if ugr is not None:
                for r in range(R):
                    for p in range(P):
                        for f in range(3):
                            v = (ugr.evaluations.perturbed_objectives[r, p, f] if f < 2
                                 else ugr.evaluations.perturbed_constraints[r, p, 0])
                            values.append({"b": 1, "r": r + 1, "p": p + 1, "f": f + 1, "val": num(v)})
            ref = fr[0] if fr else gr
            ow, cw = ref.realizations.objective_weights, ref.realizations.constraint_weights
            rw = np.array(cfg["rw"], dtype=np.float64)
            rows = [(ow[0] if ow is not None else rw), (ow[1] if ow is not None else rw), (cw[0] if cw is not None else rw)]
            e["weights"] = nums(rows)
            e["values"] = values
            # every result of this call carries the batch number the evaluator gave to THIS call (fresh evaluators only)
            e["batchok"] = bool(cfg["memo"] != "fresh" or all(r.batch_id == len(ev.calls) for r in res))
            failed = (fr[0] if fr else gr).realizations.failed_realizations
            if fr and gr is not None:
                failed = failed | gr.realizations.failed_realizations
            e["failedrow"] = [bool(v) for v in failed]
            snapshots += [(r, _snap(r)) for r in res]
            sigs.append(_sig(ures))
        events.append(e)
        events.append({"ev": "Owned", "mutated": ev.mutated()})
        if outcome != "ok" or (res is not None and any(isinstance(r, FunctionResults) and r.functions is None for r in res)):
            break           # too few realizations: an optimization stops here, later calls would build on a failed evaluation
    # delivered results are immutable snapshots: scribble over everything the evaluator still holds, then re-hash
    for _, arr, _, _, _ in ev.owned:
        if isinstance(arr, dict):
            continue
        try:
            arr[...] = -12345.0
        except ValueError:
            pass
    for buf in ev.buffers:
        buf[...] = -12345.0
    changed = [i for i, (r, h) in enumerate(snapshots) if _snap(r) != h]
    events.append({"ev": "Snap", "changed": changed})
    return events, sigs


def _arrs(obj, out, depth=0):
    if isinstance(obj, np.ndarray):
        out.append(obj)
    elif isinstance(obj, dict):
        for v in obj.values():
            _arrs(v, out, depth + 1)
    elif hasattr(obj, "__dataclass_fields__") and depth < 4:
        for name in obj.__dataclass_fields__:
            _arrs(getattr(obj, name), out, depth + 1)


def _snap(result):
    arrs = []
    _arrs(result, arrs)
    h = hashlib.sha256()
    for a in arrs:
        h.update(np.ascontiguousarray(a).tobytes())
    return h.hexdigest()


def _sig(results):
    """Signature of everything reported except the raw per-realization entries that are flagged inactive garbage."""
    parts = []
    for r in results:
        if isinstance(r, FunctionResults):
            parts.append(("F", None if r.functions is None else [np.round(r.functions.objectives, 9).tolist(),
                                                                  np.round(r.functions.constraints, 9).tolist(),
                                                                  float(np.round(r.functions.weighted_objective, 9))],
                          r.realizations.failed_realizations.tolist(),
                          None if r.realizations.objective_weights is None else np.round(r.realizations.objective_weights, 12).tolist(),
                          None if r.realizations.constraint_weights is None else np.round(r.realizations.constraint_weights, 12).tolist()))
        else:
            parts.append(("G", None if r.gradients is None else [np.round(r.gradients.objectives, 9).tolist(),
                                                                  np.round(r.gradients.constraints, 9).tolist()],
                          r.realizations.failed_realizations.tolist()))
    return json.dumps(parts)


def drive(sc):
    evA, sigA = run(sc, 7.0e6)
    evB, sigB = run(sc, -3.0e6)
    trace = evA + [{"ev": "Reset"}] + [e for e in evB if e["ev"] != "Snap"]
    interned = {s: i for i, s in enumerate(sorted(set(sigA + sigB)))}
    trace.append({"ev": "Pair", "sigA": [interned[s] for s in sigA], "sigB": [interned[s] for s in sigB]})
    cfg = sc["cfg"]
    feats = {"nontrivial": bool(0 in cfg["rw"] or cfg["filt"] != "none" or cfg["memo"] != "fresh"),
             "key": json.dumps(sc, sort_keys=True), "filt": cfg["filt"], "memo": cfg["memo"], "tf": cfg["tf"],
             "zero_weight": 0 in cfg["rw"]}
    return trace, feats


def model_runs(tier):
    if tier == "quick":
        return [{"module": "MC_C06", "constants": {"L": 2, "RSet": "{2, 3}", "PSet": "{2}"}}]
    return [{"module": "MC_C06", "constants": {"L": 3, "RSet": "{2, 3}", "PSet": "{2, 3}"}, "heap": "8g"}]


def extra_scenarios(tier, seed):
    """The same call sequences with one realization failing (NaN in an objective of the unperturbed row)."""
    rng = np.random.default_rng(seed)
    out = []
    # pure split-evaluation histories over two points: functions, gradient, functions, gradient (the filters select other members
    # at the second point), and back to the first point
    F1, G1, F2, G2 = ({"k": k, "pt": pt, "batch": 1} for pt in (1, 2) for k in ("F", "G"))
    for filt in ("none", "sortobj", "sortobj2", "sortobjcon", "cvarobj", "cononly", "conmixed"):
        for R in (2, 3):
            for tf in (False, True):
                for calls in ([F1, G1, F2, G2], [F2, G2, F1, G1, F2, G2], [F1, G1, G1, F2, G2, G2]):
                    out.append({"cfg": {"R": R, "P": 2, "rw": [1] * R, "filt": filt, "tf": tf, "memo": "fresh"}, "calls": calls, "nanreal": 0})
    kinds = [{"k": "F", "pt": 1, "batch": 1}, {"k": "G", "pt": 1, "batch": 1}, {"k": "FG", "pt": 2, "batch": 1}, {"k": "G", "pt": 3, "batch": 1},
             {"k": "F", "pt": 1, "batch": 2}, {"k": "G", "pt": 2, "batch": 1}]
    for _ in range(150 if tier == "quick" else 1500):
        R = int(rng.integers(2, 5))
        rw = [int(w) for w in rng.integers(0, 3, R)]
        if sum(rw) == 0:
            rw[0] = 1
        calls = [kinds[int(i)] for i in rng.integers(0, len(kinds), int(rng.integers(1, 4)))]
        out.append({"cfg": {"R": R, "P": int(rng.integers(1, 4)), "rw": rw,
                            "filt": ["none", "sortobj", "sortobj2", "sortobjcon", "cvarobj", "cononly", "conmixed"][int(rng.integers(7))],
                            "tf": bool(rng.integers(2)), "memo": ["fresh", "arrays", "object", "roviews"][int(rng.integers(4))]},
                    "calls": calls, "nanreal": int(rng.integers(0, R + 1))})
    return out


CHECK = PropertyCheck(
    whole_run_clauses=('evaluator_called_outside_an_evaluation', 'more_than_one_evaluator_call_per_evaluation', 'evaluator_rows_incomplete_or_mislabelled', 'evaluation_without_evaluator_call'),
    prop="C06", trace_module="Trace_C06", drive=drive, model_runs=model_runs, extra_scenarios=extra_scenarios,
    rule=("TLC explores the request machine (function cache) over every call sequence of length L (2 quick, 3 thorough) over "
          "{F batch 1-2, G, FG} x 2 points, x ensemble shapes x weight vectors with zeros x filter configurations (none, sort, sort shared by an objective and the constraint, CVaR, "
          "constraint-only) x transforms x memoising evaluators (fresh / same arrays / same object); each sequence is replayed twice "
          "with different garbage in inactive entries. Non-trivial: a zero weight, a filter or a memoising evaluator."),
    assumptions=["the scripted evaluator returns a value that encodes (batch row, realization, perturbation, function), so "
                 "'the value returned for the row with that label' is decidable from the reported numbers",
                 "result equality between the two garbage runs is compared through interned SHA-256 signatures"],
    trace_chunk=800,
)
