"""C14 - every run ends with the documented exit code under any failure pattern."""
from __future__ import annotations

import numpy as np

from ropt.enums import EventType
from ropt.evaluator import EvaluatorResult
from ropt.plan import OptimizerContext, Plan
from ropt.plugins import PluginManager
from ropt.results import FunctionResults, GradientResults

from ..core import PropertyCheck
from ..ropt_util import ScriptPlugin, exit_name, outcome_of
from ..transforms_util import make_transforms

INF = float("inf")
R, P = 3, 3


def build(cfg):
    fclass, flt, est = cfg["fclass"], cfg["flt"], cfg["est"]
    minsucc = {"thr": 2, "filter": 1, "est": 1, "pert": 2, "allnan": 0, "exc": 2, "estpert": 1, "allnanpert": 0}[fclass]
    if fclass == "filter" and flt.startswith("cvar"):
        minsucc = 0                                   # a CVaR filter is only left empty when every realization fails
    c = {
        "variables": {"initial_values": [0.5, 1.0]},
        "realizations": {"weights": [1.0] * R, "realization_min_success": minsucc},
        "objectives": {"weights": [1.0]},
        "nonlinear_constraints": {"lower_bounds": [-INF], "upper_bounds": [100.0]},
        "gradient": {"number_of_perturbations": P, "perturbation_min_success": P if fclass in ("pert", "estpert") else 1,
                     "perturbation_magnitudes": 0.01},
        "optimizer": {"method": "rvscript/script",
                      "options": {"script": [{"f": "f" in r, "g": "g" in r, "x": None,
                                              "batch": [[0.5, 1.0], [0.25, 2.0]] if r == "fb" else None} for r in cfg["reqs"]]}},
    }
    if fclass in ("allnan", "allnanpert"):
        # two objectives and three constraints where every realization may fail (the counts differ on purpose)
        c["objectives"] = {"weights": [1.0, 0.5]}
        c["nonlinear_constraints"] = {"lower_bounds": [-INF] * 3, "upper_bounds": [100.0, 1e9, 1e9]}
    if cfg["maxfun"]:
        c["optimizer"]["max_functions"] = cfg["maxfun"]
    if est == "std":
        c["function_estimators"] = [{"method": "stddev"}]
    if flt != "none":
        first, last = (1, 1) if cfg["fclass"] == "filter" else (0, 0)
        opts = {"sort-objective": {"sort": [0], "first": first, "last": last}, "sort-constraint": {"sort": 0, "first": first, "last": last},
                "cvar-objective": {"sort": [0], "percentile": 0.5}, "cvar-constraint": {"sort": 0, "percentile": 0.5}}[flt]
        c["realization_filters"] = [{"method": flt, "options": opts}]
        c["objectives"]["realization_filters"] = [0]
        c["nonlinear_constraints"]["realization_filters"] = [0]
    tf = cfg["tf"]
    transforms = None
    if tf != "none":
        transforms = make_transforms([2.0, 0.5] if tf in ("vars", "all") else None, [1.0, -1.0] if tf in ("vars", "all") else None,
                                     [2.0] if tf in ("obj", "all") else None, [4.0] if tf in ("con", "all") else None)
    return c, transforms


def drive(sc):
    trace, feats = _execute(sc, direct=False)
    cfg = sc["cfg"]
    if cfg["kind"] == "opt" and cfg["fclass"] != "exc":
        # the same run with the optimization engine used directly (no plan, no step, no evaluation signal): the same exit code
        other, _ = _execute(sc, direct=True)
        trace[-1]["direct"] = other[-1]["code"]
    return trace, feats


def _execute(sc, direct):
    cfg = sc["cfg"]
    config, transforms = build(cfg)
    state = {"call": 0, "req": 0, "pending": None, "nfun": 0}
    events = []
    fclass, failAt = cfg["fclass"], cfg["failAt"]
    all_fail = fclass == "allnan" or (fclass == "filter" and cfg["flt"].startswith("cvar"))
    import zlib as _zlib
    nan_in_constraint = _zlib.crc32(("nan" + str(cfg)).encode()) % 2 == 1

    def evaluator(variables, context):
        state["call"] += 1
        perts = context.perturbations
        unpert = np.ones(variables.shape[0], dtype=bool) if perts is None else perts < 0
        if state["pending"] is not None:       # previous call never delivered
            events.append({"ev": "Eval", "idx": state["pending"], "delivered": False, "failed": False, "code": "", "nfun": 0})
        idx = state["call"]
        state["pending"] = idx
        if unpert.any():
            state["nfun"] += int(unpert.sum()) // R
        if idx == failAt and fclass == "exc":
            raise ValueError("boom")
        obj = (variables ** 2).sum(axis=1, keepdims=True) + 0.1 * context.realizations[:, None]
        con = variables.sum(axis=1, keepdims=True)
        if idx == failAt:
            real = context.realizations
            # a failure is a NaN in ANY value of the row: every second scenario reports it in the constraint only
            tgt = con if nan_in_constraint else obj
            if fclass in ("thr", "filter", "est", "allnan"):
                bad = unpert & (np.ones_like(real, dtype=bool) if all_fail else real < 2)
                tgt[bad] = np.nan
            elif fclass == "pert" and perts is not None:
                tgt[(perts == 0)] = np.nan
            elif fclass == "estpert" and perts is not None:
                tgt[(perts == 0) & (real < 2)] = np.nan          # realizations 0 and 1 lose a perturbation: one realization is left
            elif fclass == "allnanpert" and perts is not None:
                tgt[perts >= 0] = np.nan
        if fclass in ("allnan", "allnanpert"):
            obj = np.concatenate([obj, 0.0 * obj + 1.0], axis=1) if not np.isnan(obj).any() else np.concatenate([obj, obj], axis=1)
            con = np.concatenate([con, 0.0 * con, 0.0 * con], axis=1)
        return EvaluatorResult(objectives=obj, constraints=con)

    def finished(event):
        results = event.data["results"]
        failed = any((isinstance(r, FunctionResults) and r.functions is None) or (isinstance(r, GradientResults) and r.gradients is None)
                     or bool(np.all(r.realizations.failed_realizations)) for r in results)
        if cfg["allownan"]:
            failed = any((isinstance(r, FunctionResults) and r.functions is None) or (isinstance(r, GradientResults) and r.gradients is None)
                         for r in results)
        events.append({"ev": "Eval", "idx": state["pending"] or 0, "delivered": True, "failed": bool(failed), "code": "", "nfun": 0})
        state["pending"] = None

    pm = PluginManager()
    pm.add_plugin("optimizer", "rvscript", ScriptPlugin())
    ScriptPlugin.reset([], allow_nan=bool(cfg["allownan"]), parallel="fb" in cfg["reqs"])
    ctx = OptimizerContext(evaluator=evaluator, plugin_manager=pm)
    ctx.add_observer(EventType.FINISHED_EVALUATION, finished)
    plan = Plan(ctx)
    if direct:
        from ropt.config.enopt import EnOptConfig
        from ropt.ensemble_evaluator import EnsembleEvaluator
        from ropt.optimization import EnsembleOptimizer
        cfgobj = EnOptConfig.model_validate(config, context=transforms)
        engine = EnsembleOptimizer(cfgobj, EnsembleEvaluator(cfgobj, transforms, evaluator, pm), pm)
        code, outcome = outcome_of(lambda: engine.start(np.array(cfgobj.variables.initial_values)))
    elif cfg["kind"] == "eval":
        step = plan.add_step("evaluator")
        config.pop("optimizer")
        code, outcome = outcome_of(lambda: plan.run_step(step, config=config, transforms=transforms))
    else:
        step = plan.add_step("optimizer")
        import tempfile
        import zlib
        # output redirection is an orthogonal switch: on for every second scenario, the exit codes must not depend on it
        if zlib.crc32(str(cfg).encode()) % 2:
            with tempfile.TemporaryDirectory(prefix="rvc14") as outdir:
                config["optimizer"] = {**config["optimizer"], "output_dir": outdir, "stdout": "optimizer.out"}
                code, outcome = outcome_of(lambda: plan.run_step(step, config=config, transforms=transforms))
        else:
            code, outcome = outcome_of(lambda: plan.run_step(step, config=config, transforms=transforms))
    if state["pending"] is not None:
        events.append({"ev": "Eval", "idx": state["pending"], "delivered": False, "failed": False, "code": "", "nfun": 0})
    events.append({"ev": "Exit", "idx": 0, "delivered": False, "failed": False, "direct": "",
                   "code": exit_name(code) if outcome == "ok" else outcome, "nfun": state["nfun"]})
    trace = [{"ev": "Scenario", "cfg": cfg}] + events
    feats = {"nontrivial": bool(failAt > 1 or (failAt >= 1 and (cfg["flt"] != "none" or cfg["tf"] != "none" or cfg["est"] == "std"
                                                                   or fclass in ("allnan", "pert", "estpert", "allnanpert")))),
             "key": str(cfg), "fclass": fclass, "tf": cfg["tf"], "kind": cfg["kind"], "flt": cfg["flt"]}
    return trace, feats


def model_runs(tier):
    if tier == "quick":
        return [{"module": "MC_C14"}]
    return [{"module": "MC_C14", "constants": {"KSet": "{1, 2, 3, 4}", "TfSet": '{"none", "vars", "obj", "con", "all"}'}, "heap": "8g"}]


from .basic import C14_CLAUSES as _BASIC_CLAUSES  # noqa: E402

CHECK = PropertyCheck(
    attached=(("rv.drivers.basic", _BASIC_CLAUSES, "medium"), ("rv.drivers.c15", ("exit_code_expected",), "medium")),
    whole_run_clauses=('functions_withheld_although_enough_realizations_succeeded', 'results_and_transformed_results_do_not_correspond', 'budget_exceeded', 'evaluation_after_budget_exhausted', 'spurious_TOO_FEW_REALIZATIONS', 'failure_not_reported_by_exit_code', 'spurious_MAX_FUNCTIONS_REACHED'),
    prop="C14", trace_module="Trace_C14", drive=drive, model_runs=model_runs,
    rule=("TLC model-checks OptStep.tla (budget respected, TOO_FEW iff a delivered evaluation failed, failing results delivered, "
          "documented exits) for every request pattern x failing evaluation index x failure class {threshold, filter left empty, stddev "
          "estimator, perturbations, all-NaN with min_success 0, raising evaluator} x max_functions 0..K+1 x step kind x NaN tolerance x "
          "filter kind x estimator x transforms; each scenario runs on a real plan and its recorded evaluations/exit are replayed "
          "against the model. Non-trivial: failure after the first evaluation, or together with a filter / transform / stddev."),
    assumptions=["scripted back-end issuing a fixed request pattern at the start point",
                 "one function evaluation = one evaluator call containing unperturbed rows"],
    trace_chunk=500,
)
