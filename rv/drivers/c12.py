"""C12 - the tracked best result is the feasible optimum over the whole history."""
from __future__ import annotations

import uuid

import numpy as np

from ropt.config.enopt import EnOptConfig
from ropt.enums import EventType
from ropt.plan import Event, OptimizerContext, Plan
from ropt.results import (ConstraintInfo, FunctionEvaluations, FunctionResults, Functions, GradientEvaluations,
                          GradientResults, Realizations)

from ..core import PropertyCheck
from ..ropt_util import plugin_manager

CONFIG = None


def config():
    global CONFIG
    if CONFIG is None:
        CONFIG = EnOptConfig.model_validate({"variables": {"initial_values": [0.0], "lower_bounds": [-10.0], "upper_bounds": [10.0]}})
    return CONFIG


def make_item(it, flip, transformed):
    """Build a result object for item `it`; `transformed` selects the optimizer-domain twin."""
    if it["kind"] == "G":
        return GradientResults(batch_id=it["id"], metadata={"domain": "optimizer" if transformed else "user"}, realizations=Realizations(failed_realizations=np.array([False])),
                               evaluations=GradientEvaluations.create(np.zeros(1), np.zeros((1, 1, 1)), np.zeros((1, 1, 1))),
                               gradients=None)
    obj = float("nan") if it["nan"] else float("inf") if it["obj"] == 9 else float(it["obj"])
    if transformed and flip:
        obj = -obj
    functions = None
    if it["hasfun"]:
        functions = Functions.create(weighted_objective=np.array(obj), objectives=np.array([obj]))
    viol = 0.0 if it["feas_raw"] else 1.0
    if it.get("userdiffers") and not transformed:
        # the USER-domain twin reports the opposite (a rescaling transform): feasibility is judged where the optimizer works
        viol = 1.0 - viol
    return FunctionResults(
        batch_id=it["id"], metadata={"domain": "optimizer" if transformed else "user"},
        realizations=Realizations(failed_realizations=np.array([False])),
        evaluations=FunctionEvaluations.create(np.zeros(1), np.array([[obj]])),
        functions=functions,
        constraint_info=ConstraintInfo(bound_lower=np.array([-viol]), bound_upper=np.array([-20.0])))


def drive(sc):
    par = sc["par"]
    tol = None if par["tolnone"] else (0.0 if par.get("tol") == "zero" else 0.1)
    plan = Plan(OptimizerContext(evaluator=lambda *_: None, plugin_manager=plugin_manager()))
    tracked, tracked2, other = uuid.uuid4(), uuid.uuid4(), uuid.uuid4()
    srcs = par.get("srcs", "set")
    kw = {"set": {"sources": {tracked, tracked2}}, "none": {"sources": None}, "omitted": {}, "empty": {"sources": set()}}[srcs]
    tracker = plan.add_handler("tracker", what=par["what"], constraint_tolerance=tol, **kw)
    trace = []
    # the second tracked step lives in a NESTED plan: its events reach the handlers of the enclosing plan through the parent link
    inner = Plan(plan.optimizer_context) if hasattr(plan, "optimizer_context") else None
    if inner is not None:
        # (the nested plan was nested in ANOTHER plan before: the parent that counts is the one it runs under now)
        inner.set_parent(Plan(plan.optimizer_context))
        inner.set_parent(plan)
    for ev in sc["events"]:
        items = [dict(it, feas_raw=it["feas"]) for it in ev["items"]]
        assert par["flip"] or not any(it.get("userdiffers") for it in items)
        results = tuple(make_item(it, par["flip"], False) for it in items)
        data = {"results": results}
        if par["flip"]:
            data["transformed_results"] = tuple(make_item(it, True, True) for it in items)
        (inner if inner is not None and ev["src"] == "tracked2" else plan).emit_event(
            Event(event_type=EventType.FINISHED_EVALUATION, config=config(),
                  source={"tracked": tracked, "tracked2": tracked2}.get(ev["src"], other), data=data))
        if len(trace) % 2 == 0:
            # the tracked step finishes (and, with the next event, runs again): what a tracker holds outlives the step
            for et in (EventType.FINISHED_OPTIMIZER_STEP, EventType.START_OPTIMIZER_STEP):
                plan.emit_event(Event(event_type=et, config=config(), source={"tracked": tracked, "tracked2": tracked2}.get(ev["src"], other), data={}))
        kept = plan.get(tracker, "results")
        eff = [{k: it[k] for k in ("id", "kind", "hasfun", "obj", "nan")} | {"feas": bool(it["feas"] or par["tolnone"])}   # (optimizer domain)
               for it in ev["items"]]
        trace.append({"ev": "Event", "what": par["what"], "flip": bool(par["flip"]), "src": ev["src"], "items": eff, "listens": srcs == "set",
                      "kept": 0 if kept is None else int(kept.batch_id),
                      # what a handler hands out is the result the USER sees, never its optimizer-domain twin
                      "keptuser": bool(kept is None or kept.metadata.get("domain") == "user"), "varsmatch": True})
    last_id = sc["events"][-1]["items"][-1]["id"]
    final = trace[-1]["kept"]
    return trace, {"nontrivial": bool(final != 0 and final != last_id), "key": str(sc), "flip": bool(par["flip"]),
                   "what": par["what"], "first_nan": bool(sc["events"][0]["items"][0]["nan"])}


def drive_real(sc):
    """Code -> spec: a real optimisation through BasicOptimizer; every delivered result is an item,
    objectives interned by rank in the optimizer domain, feasibility from the reported violations."""
    from ropt.evaluator import EvaluatorResult
    from ropt.plan import BasicOptimizer
    from ..transforms_util import make_transforms, ObjectiveScaler
    from ropt.transforms import OptModelTransforms
    tol = 1e-10
    flip = sc["flip"]
    cfg = {"variables": {"initial_values": sc["x0"], "lower_bounds": [-2.0, -2.0], "upper_bounds": [2.0, 2.0]},
           "optimizer": {"method": sc["method"], "max_functions": sc["maxfun"], "tolerance": 1e-4},
           "gradient": {"number_of_perturbations": 4, "perturbation_magnitudes": 0.01},
           "realizations": {"weights": [1.0, 1.0], "realization_min_success": 0 if sc["nanfirst"] else 1}}
    if sc["method"] == "cobyla":
        cfg["variables"] = {"initial_values": sc["x0"]}
    if sc["con"]:
        cfg["nonlinear_constraints"] = {"lower_bounds": [-1e30 if False else float("-inf")], "upper_bounds": [0.5]}
    transforms = OptModelTransforms(objectives=ObjectiveScaler([-1.0])) if flip else None
    if sc.get("vartf"):
        # scaled and shifted variables as well: what BasicOptimizer reports (results, variables) is user-domain all the same
        from ropt.transforms import VariableScaler
        transforms = OptModelTransforms(variables=VariableScaler(np.array([2.0, 0.5]), np.array([0.25, -0.5])),
                                        objectives=ObjectiveScaler([-1.0]) if flip else None)
    calls = {"n": 0}

    def evaluator(variables, context):
        calls["n"] += 1
        x = variables
        f = (x[:, 0] - 0.5) ** 2 + (x[:, 1] + 0.25) ** 2 + 0.1 * context.realizations
        if flip:
            f = -f                      # the user maximises -(...)
        if sc["nanfirst"] and calls["n"] == 1:
            f = np.full_like(f, np.nan)
        cons = (x[:, 0] + x[:, 1])[:, None] if sc["con"] else None
        return EvaluatorResult(objectives=f[:, None], constraints=cons)

    seen = []
    config_obj = EnOptConfig.model_validate(cfg, context=transforms)
    opt = BasicOptimizer(config_obj, evaluator, transforms=transforms, constraint_tolerance=tol)
    opt.set_results_callback(lambda res, tres: seen.append((res, tres)), transformed=True) if transforms is not None else \
        opt.set_results_callback(lambda res: seen.append((res, res)))
    opt.run()
    objs = []
    for res, tres in seen:
        for r, t in zip(res, tres):
            if isinstance(t, FunctionResults) and t.functions is not None and not np.isnan(t.functions.weighted_objective):
                objs.append(float(t.functions.weighted_objective))
    rank = {v: i + 1 for i, v in enumerate(sorted(set(objs)))}
    trace, ids, k = [], {}, 0
    for n, (res, tres) in enumerate(seen, start=1):
        items = []
        for j, (r, t) in enumerate(zip(res, tres), start=1):
            k += 1
            ids[id(r)] = k
            if isinstance(t, FunctionResults):
                hasfun = t.functions is not None
                nan = bool(hasfun and np.isnan(t.functions.weighted_objective))
                feas = True
                ci = t.constraint_info
                if ci is not None:
                    for v in (ci.bound_violation, ci.linear_violation, ci.nonlinear_violation):
                        if v is not None and np.any(v > tol):
                            feas = False
                # optimizer-domain rank; the spec's flip flag is False because ranks are already in the optimizer domain
                items.append({"id": k, "kind": "F", "hasfun": hasfun, "obj": 0 if (nan or not hasfun) else rank[float(t.functions.weighted_objective)],
                              "nan": nan or not hasfun, "feas": feas})
            else:
                items.append({"id": k, "kind": "G", "hasfun": False, "obj": 0, "nan": True, "feas": True})
        trace.append({"ev": "Event", "what": "best", "flip": False, "src": "tracked", "items": items, "kept": -1, "keptuser": True, "listens": True, "varsmatch": True})
    # only the final state is observable through BasicOptimizer: judge the last event, mark the others as unobserved
    final = 0 if opt.results is None else ids.get(id(opt.results), -2)
    varsmatch = bool(opt.results is None or (opt.variables is not None and np.array_equal(opt.variables, opt.results.evaluations.variables)))
    out = []
    for e in trace[:-1]:
        out.append(dict(e, ev="Event", kept=-1))
    trace = [dict(e, ev="Feed") for e in trace[:-1]] + [dict(trace[-1], kept=final, varsmatch=varsmatch)] if trace else []
    return trace, {"nontrivial": bool(len(trace) > 2), "key": "real|" + str(sc), "flip": flip, "what": "best", "first_nan": sc["nanfirst"]}


_drive_scripted = drive


def drive(sc):  # noqa: F811
    return drive_real(sc) if sc.get("real") else _drive_scripted(sc)


def extra_scenarios(tier, seed):
    rng = np.random.default_rng(seed)
    out = []
    # results whose two twins disagree about feasibility (violations rescaled by a transform): the optimizer-domain twin decides
    for what in ("best", "last"):
        for order in (0, 1):
            good = {"kind": "F", "hasfun": True, "obj": 1, "nan": False, "feas": True, "userdiffers": True}
            bad = {"kind": "F", "hasfun": True, "obj": 2 if what == "last" else 0, "nan": False, "feas": False, "userdiffers": True}
            seq = [good, bad] if order == 0 else [bad, good]
            out.append({"par": {"what": what, "flip": True, "tolnone": False, "tol": "pos", "srcs": "set"},
                        "events": [{"src": "tracked", "items": [dict(it, id=10 * (k + 1) + 1)]} for k, it in enumerate(seq)]})
    # batches that contain a FAILED evaluation (no function values) whose feasibility differs from its neighbour's
    n = 0
    for what in ("best", "last"):
        for flip in (False, True):
            for afeas in (False, True):
                for order in (0, 1):
                    for first in (None, 1, 2):
                        a = {"kind": "F", "hasfun": True, "obj": 1, "nan": False, "feas": afeas}
                        f = {"kind": "F", "hasfun": False, "obj": 0, "nan": True, "feas": not afeas}
                        events = []
                        if first is not None:
                            events.append({"src": "tracked", "items": [{"id": 11, "kind": "F", "hasfun": True, "obj": first + 1, "nan": False, "feas": True}]})
                        pair = [a, f] if order == 0 else [f, a]
                        k = 10 * (len(events) + 1)
                        events.append({"src": "tracked", "items": [dict(it, id=k + j + 1) for j, it in enumerate(pair)]})
                        out.append({"par": {"what": what, "flip": flip, "tolnone": False, "tol": "pos", "srcs": "set"}, "events": events})
                        n += 1
    for method in ("slsqp", "cobyla") + (("l-bfgs-b", "nelder-mead", "differential_evolution") if tier == "thorough" else ()):
        for flip in (False, True):
            for con in (False, True):
                if con and method not in ("slsqp", "cobyla", "differential_evolution"):
                    continue
                for nanfirst in (False, True):
                    out.append({"real": True, "method": method, "flip": flip, "con": con, "nanfirst": nanfirst, "vartf": bool(con) != bool(nanfirst),
                                "x0": [float(v) for v in rng.uniform(-1.5, 1.5, 2)], "maxfun": 12 if tier == "quick" else 40})
    return out


def model_runs(tier):
    if tier == "quick":
        return [{"module": "MC_C12", "constants": {"L": 2, "Pairs": "TRUE"}},
                {"module": "MC_C12", "constants": {"L": 3, "Pairs": "FALSE"}}]
    return [{"module": "MC_C12", "constants": {"L": 3, "Pairs": "TRUE"}, "heap": "12g"},
            {"module": "MC_C12", "constants": {"L": 5, "Pairs": "FALSE"}, "heap": "12g"}]


from .basic import C12_CLAUSES as _BASIC_CLAUSES  # noqa: E402

CHECK = PropertyCheck(
    attached=(("rv.drivers.basic", _BASIC_CLAUSES, "medium"),),
    whole_run_clauses=('results_and_transformed_results_do_not_correspond', 'tracked_result_not_the_feasible_optimum',),
    prop="C12", trace_module="Trace_C12", drive=drive, model_runs=model_runs, extra_scenarios=extra_scenarios,
    rule=("TLC enumerates every event history of length 2 with 1-2 items per event and of length 4 with single items (thorough 3 / 6) "
          "over {objective ranks 1,2 with ties, NaN, infeasible, functions missing, gradient result, untracked source} x best/last x "
          "sign-flipping transform x tolerance None, checking the fold against the arg-min definition; every history is emitted on a "
          "real Plan with a tracker handler and the kept result read back after each event. Non-trivial: the finally kept result is "
          "not the last item."),
    assumptions=["violations are 0 or 10x the tolerance, so feasibility does not depend on the domain",
                 "ties: any tied minimiser accepted; 'last' may or may not skip results with an undefined objective"],
    trace_chunk=3000,
)
