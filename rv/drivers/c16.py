"""C16 - runs are reproducible from configuration and seed alone."""
from __future__ import annotations

import hashlib
import zlib

import numpy as np

from ropt.config.enopt import EnOptConfig
from ropt.enums import EventType
from ropt.evaluator import EvaluatorResult
from ropt.plan import OptimizerContext, Plan
from ropt.plugins import PluginManager
from ropt.results import FunctionResults, GradientResults

from pathlib import Path

from ..core import PropertyCheck
from ..ropt_util import outcome_of
from ..transforms_util import make_transforms

INF = float("inf")


def catalogue():
    base = {"variables": {"initial_values": [0.3, -0.4, 0.8], "lower_bounds": [-2.0] * 3, "upper_bounds": [2.0] * 3},
            "realizations": {"weights": [1.0, 2.0, 1.0]},
            "optimizer": {"method": "slsqp", "max_functions": 4, "tolerance": 1e-6},
            "gradient": {"number_of_perturbations": 4, "perturbation_magnitudes": 0.05}}
    out = []
    for method in ("norm", "uniform", "truncnorm", "sobol", "halton", "lhs"):
        for shared in (False, True):
            c = _copy(base); c["samplers"] = [{"method": method, "shared": shared}]
            out.append(c)
    for method in ("sobol", "halton", "lhs"):          # unscrambled sequences still must not use any other random source
        c = _copy(base); c["samplers"] = [{"method": method, "options": {"scramble": False}}]
        if method != "lhs":
            c["_seedfree"] = True      # an unscrambled Sobol'/Halton sequence is deterministic: the seed cannot change it
        out.append(c)
    c = _copy(base); c["samplers"] = [{"method": "lhs", "options": {"scramble": False, "optimization": "random-cd"}}]
    out.append(c)
    c = _copy(base); c["samplers"] = [{"method": "uniform", "options": {"loc": -0.5, "scale": 1.0}}]
    out.append(c)
    c = _copy(base); c["samplers"] = [{"method": "norm"}, {"method": "lhs", "shared": True}]; c["gradient"]["samplers"] = [0, 1, 0]
    out.append(c)
    c = _copy(base); c["samplers"] = [{"method": "sobol"}, {"method": "halton"}, {"method": "lhs"}]; c["gradient"]["samplers"] = [2, 0, 1]
    out.append(c)
    c = _copy(base); c["variables"]["mask"] = [True, False, True]; c["samplers"] = [{"method": "sobol"}]
    out.append(c)
    for method in ("norm", "sobol"):       # configurations validated and run with transforms
        c = _copy(base); c["samplers"] = [{"method": method}]; c["_transforms"] = {"var_scales": [2.0, 0.5, 1.0], "var_offsets": [0.1, 0.0, -0.2]}
        out.append(c)
        c = _copy(base); c["samplers"] = [{"method": method}]; c["_transforms"] = {"obj_scales": [4.0]}
        out.append(c)
    c = _copy(base); c["realization_filters"] = [{"method": "cvar-objective", "options": {"sort": [0], "percentile": 0.5}}]
    c["objectives"] = {"weights": [1.0], "realization_filters": [0]}
    out.append(c)
    c = _copy(base); c["function_estimators"] = [{"method": "stddev"}]; c["objectives"] = {"weights": [1.0], "function_estimators": [0]}
    out.append(c)
    c = _copy(base); c["optimizer"]["method"] = "l-bfgs-b"; c["gradient"]["merge_realizations"] = True
    out.append(c)
    c = _copy(base); c["optimizer"] = {"method": "cobyla", "max_functions": 5}; c["variables"] = {"initial_values": [0.3, -0.4, 0.8]}
    out.append(c)
    c = _copy(base); c["optimizer"] = {"method": "differential_evolution", "max_functions": 6, "options": {"seed": 11, "popsize": 2}}
    out.append(c)
    for de_seed in (0, 1):
        c = _copy(base); c["optimizer"] = {"method": "differential_evolution", "max_functions": 6, "options": {"seed": de_seed, "popsize": 2}}
        out.append(c)
    c = _copy(base); c["optimizer"] = {"method": "differential_evolution", "max_functions": 8, "parallel": True,
                                       "options": {"seed": 5, "popsize": 2}}
    out.append(c)
    # neighbours in the catalogue run as "another optimization" between two target runs: a method with its default
    # options next to the same method with explicit options
    # ... a zero-weight realization without / with / without a realization filter (same weights, same function counts)
    for k in range(3):
        c = _copy(base); c["realizations"] = {"weights": [1.0, 0.0, 2.0], "realization_min_success": 1}
        if k == 1:
            c["realization_filters"] = [{"method": "sort-objective", "options": {"sort": [0], "first": 0, "last": 1}}]
            c["objectives"] = {"weights": [1.0], "realization_filters": [0]}
        out.append(c)
    # ... a back-end seeded with a generator OBJECT (the validated configuration is re-used between the runs)
    for _ in range(2):
        c = _copy(base); c["optimizer"] = {"method": "differential_evolution", "max_functions": 6, "options": {"popsize": 2}}; c["_seedobj"] = 5
        out.append(c)
    for method, opts in (("uniform", {"loc": -0.25, "scale": 0.5}), ("truncnorm", {"a": -0.5, "b": 0.5}), ("norm", {"scale": 2.0})):
        c = _copy(base); c["samplers"] = [{"method": method}]
        out.append(c)
        c = _copy(base); c["samplers"] = [{"method": method, "options": opts}]
        out.append(c)
        c = _copy(base); c["samplers"] = [{"method": method}]
        out.append(c)
    # ... an evaluation in which every realization fails, tolerated by the threshold, with a non-linear constraint: what is
    # reported for the constraint then must not depend on what was computed before (neighbours: the same without failure)
    for k in range(3):
        c = _copy(base); c["nonlinear_constraints"] = {"lower_bounds": [-INF] * 3, "upper_bounds": [1.5, 2.5, 3.5]}
        c["realizations"] = {"weights": [1.0, 2.0, 1.0], "realization_min_success": 0}
        if k != 1:
            c["_failall"] = 1 if k == 0 else 2
        out.append(c)
    # ... a configuration DERIVED from its neighbour: the neighbour's validated gradient section copied with another sampler
    # assignment (model_copy) - whether the neighbour was used for a run before or not must not matter
    for k in range(2):
        c = _copy(base); c["samplers"] = [{"method": "norm"}, {"method": "uniform"}]; c["gradient"]["samplers"] = [0, 1, 0]
        if k == 0:
            c["_derive"] = [1, 0, 1]
        out.append(c)
    # ... linear constraints with a variable transform: the neighbours have the same number of rows but other coefficients, and
    # when things are re-used the TRANSFORM OBJECT is shared between them (same scales and offsets)
    for k in range(3):
        c = _copy(base); c["_transforms"] = {"var_scales": [2.0, 0.5, 1.0], "var_offsets": [0.1, 0.0, -0.2]}
        # (row scalings 3 and 7: not powers of two, so that a wrong one shows in the last bits)
        c["linear_constraints"] = ({"coefficients": [[1.5, 1.0, 0.0]], "lower_bounds": [-INF], "upper_bounds": [0.2]} if k != 1 else
                                   {"coefficients": [[3.5, -1.0, 0.5]], "lower_bounds": [-INF], "upper_bounds": [1.0]})
        c["optimizer"]["max_functions"] = 5
        out.append(c)
    return out


def _copy(d):
    import copy
    return copy.deepcopy(d)


from ropt.plugins.sampler.base import Sampler, SamplerPlugin  # noqa: E402
from ropt.plugins.sampler.scipy import SciPySamplerPlugin  # noqa: E402


class _NegatedSampler(Sampler):
    def __init__(self, inner):
        self._inner = inner

    def generate_samples(self):
        return -self._inner.generate_samples()


class NegatingSamplerPlugin(SamplerPlugin):
    """Supports every bundled sampler method and hands out its samples negated: registered with prioritize=True it
    takes over the bare method names, and every run made afterwards must show it."""

    def create(self, enopt_config, sampler_index, mask, rng):
        return _NegatedSampler(SciPySamplerPlugin().create(enopt_config, sampler_index, mask, rng))

    def is_supported(self, method):
        return SciPySamplerPlugin().is_supported(method)


def _new_manager():
    pm = PluginManager()
    if STATE["plugged"]:
        pm.add_plugin("sampler", "rvneg", NegatingSamplerPlugin(), prioritize=True)
    return pm


CATALOGUE = None
STATE = {"plugged": False}
SHARED = {"pm": None, "plan": None, "step": None, "ctx": None, "sink": None, "configs": {}, "plugged": False}
SEEDS = {1: 5, 2: 5 + 2 ** 32}          # gradient seeds used for the model's seeds 1 and 2 (differ only above bit 32)


RUNS = {"count": 0}


def run_once(cfg, seed, reuse, label, nest=False):
    RUNS["count"] += 1
    original = cfg
    cfg = _copy(cfg)
    seedfree = cfg.pop("_seedfree", False)
    tf = cfg.pop("_transforms", None)
    seedobj = cfg.pop("_seedobj", None)
    failall = cfg.pop("_failall", 0)
    derive = cfg.pop("_derive", None)
    hascon = "nonlinear_constraints" in cfg
    ncon = len(cfg["nonlinear_constraints"]["upper_bounds"]) if hascon else 0
    if tf is not None and reuse:
        # the transform object of an earlier run with equal scales / offsets is re-used as well
        transforms = SHARED.setdefault("transforms", {}).setdefault(repr(tf), make_transforms(**tf))
    else:
        transforms = None if tf is None else make_transforms(**tf)
    cfg["gradient"]["seed"] = SEEDS.get(seed, seed)
    h, hp = hashlib.sha256(), hashlib.sha256()
    state = {"n": 0, "pert": False}

    def evaluator(variables, context):
        state["n"] += 1
        # the user's code leaves the heap in another state in every run (small arrays with run-specific contents, freed again)
        junk = [np.full(k % 4 + 1, 1000.0 + RUNS["count"]) for k in range(64)]
        del junk
        if nest and state["n"] == 1:
            # another optimization (same configuration, another seed, everything of its own) starts and completes inside this
            # evaluator call: two evaluators and their samplers are alive at the same time
            run_once(original, 77, False, "inner")
        np.random.seed(1000 + state["n"])             # interference DURING the run
        np.random.random(3)
        h.update(variables.tobytes()); h.update(context.realizations.tobytes())
        for flags in (context.active_objectives, context.active_constraints):      # what the evaluator is asked to compute
            h.update(b"-" if flags is None else np.asarray(flags).tobytes())
        if context.perturbations is not None:
            h.update(context.perturbations.tobytes())
            rows = variables[context.perturbations >= 0]
            if rows.size:
                state["pert"] = True
                hp.update(rows.tobytes())
        x = variables
        obj = ((x - 0.25 * (1 + context.realizations[:, None])) ** 2).sum(axis=1, keepdims=True)
        if failall == state["n"]:
            obj[:] = np.nan                 # every realization fails in this evaluation
        h.update(obj.tobytes())
        con = None if not hascon else (x[:, :1] + x[:, 1:2] * x[:, 2:3] + 0.125 * context.realizations[:, None]) * np.arange(1.0, ncon + 1.0)
        # (the context's arrays are the user's to recycle: here they are overwritten after use)
        for arr in (context.realizations, context.perturbations):
            if arr is not None and arr.flags.writeable:
                arr[...] = 99
        return EvaluatorResult(objectives=obj, constraints=con)

    def finished(event):
        for r in event.data["results"]:
            if isinstance(r, FunctionResults) and r.functions is not None:
                h.update(r.functions.weighted_objective.tobytes())
                h.update(b"-" if r.functions.constraints is None else np.asarray(r.functions.constraints).tobytes())
                ci = r.constraint_info          # the reported constraint differences are results as well
                for name in ("bound_lower", "bound_upper", "linear_lower", "linear_upper", "nonlinear_lower", "nonlinear_upper"):
                    arr = None if ci is None else getattr(ci, name)
                    h.update(b"-" if arr is None else np.asarray(arr).tobytes())
            if isinstance(r, GradientResults) and r.gradients is not None:
                h.update(r.gradients.weighted_objective.tobytes())

    if derive is not None:
        # (without the mark this IS the neighbour's configuration; as "another optimization" it ran with seed 99)
        as_other = _copy(cfg); as_other["gradient"]["seed"] = 99
        parent = SHARED["configs"].get(repr(as_other) + repr(tf) + repr(seedobj)) if reuse else None
        if parent is None:
            parent = EnOptConfig.model_validate(as_other, context=transforms)
        gradient = parent.gradient.model_copy(update={"samplers": np.array(derive, dtype=np.intc), "seed": (cfg["gradient"]["seed"],)})
        cfg = {**cfg, "gradient": gradient}
    if reuse:
        # everything that can be re-used is re-used: plug-in manager, context, plan, step object and the validated
        # configuration object of an earlier identical run
        if SHARED["pm"] is None:
            SHARED["pm"] = _new_manager()
            SHARED["plugged"] = STATE["plugged"]
            SHARED["sink"] = {"evaluator": None, "finished": None}
            sink = SHARED["sink"]
            SHARED["ctx"] = OptimizerContext(evaluator=lambda v, c: sink["evaluator"](v, c), plugin_manager=SHARED["pm"])
            SHARED["ctx"].add_observer(EventType.FINISHED_EVALUATION, lambda e: sink["finished"](e))
            SHARED["plan"] = Plan(SHARED["ctx"])
            SHARED["step"] = SHARED["plan"].add_step("optimizer")
        SHARED["sink"]["evaluator"], SHARED["sink"]["finished"] = evaluator, finished
        key = repr(cfg) + repr(tf) + repr(seedobj)
        if tf is not None and "linear_constraints" in cfg:
            # (a transform object remembers the row scaling of the configuration validated with it LAST: a configuration
            #  with linear constraints is validated again before each run, as a user who shares the transform object must)
            cfg = EnOptConfig.model_validate(cfg, context=transforms)
        else:
            if key not in SHARED["configs"]:
                if seedobj is not None:
                    cfg["optimizer"]["options"]["seed"] = np.random.default_rng(seedobj)
                SHARED["configs"][key] = EnOptConfig.model_validate(cfg, context=transforms)
            cfg = SHARED["configs"][key]
        plan, step = SHARED["plan"], SHARED["step"]
    else:
        if seedobj is not None:
            cfg["optimizer"]["options"]["seed"] = np.random.default_rng(seedobj)
        if STATE["plugged"]:
            ctx = OptimizerContext(evaluator=evaluator, plugin_manager=_new_manager())
        else:
            # no manager is passed: the context makes its own.  "Another optimization" registers a prioritised sampler
            # plug-in on the manager of ITS OWN context - nobody else's business
            ctx = OptimizerContext(evaluator=evaluator)
            if label in ("other", "inner"):
                try:
                    ctx.plugin_manager.add_plugin("sampler", "rvneg-own", NegatingSamplerPlugin(), prioritize=True)
                except Exception:  # noqa: BLE001 - a manager of its own cannot know the name already: the runs will tell
                    pass
        ctx.add_observer(EventType.FINISHED_EVALUATION, finished)
        plan = Plan(ctx)
        step = plan.add_step("optimizer")
    code, outcome = outcome_of(lambda: plan.run_step(step, config=cfg, transforms=transforms))
    h.update(str(code).encode())
    return h.hexdigest(), hp.hexdigest(), state["pert"] and not seedfree, outcome


def run_in_child(index, seed, plugged, salt, nest=False):
    """The same target run in a fresh interpreter process with another string-hash salt."""
    import json as _json
    import os
    import subprocess
    import sys
    env = dict(os.environ, PYTHONHASHSEED=str(salt))
    code = ("import json,sys; from rv.drivers import c16; c16.STATE['plugged']=%r; "
            "print('RVCHILD'+json.dumps(c16.run_once(c16.catalogue()[%d], %d, False, 'child', %r)))" % (bool(plugged), index, seed, bool(nest)))
    out = subprocess.run([sys.executable, "-c", code], env=env, capture_output=True, text=True, timeout=600, cwd=str(Path(__file__).resolve().parents[2]))
    for line in out.stdout.splitlines():
        if line.startswith("RVCHILD"):
            return tuple(_json.loads(line[7:]))
    raise RuntimeError("child run failed: " + out.stderr[-2000:])


def drive(sc):
    global CATALOGUE
    if CATALOGUE is None:
        CATALOGUE = catalogue()
    ops = sc["ops"]
    base = zlib.crc32(str(ops).encode()) % len(CATALOGUE)
    cfgs = {1: CATALOGUE[base], 2: CATALOGUE[(base + 1) % len(CATALOGUE)]}
    index = {1: base, 2: (base + 1) % len(CATALOGUE)}
    reuse = False
    nest = False
    child = 0
    raw = []
    STATE["plugged"] = False
    if SHARED["plugged"]:              # a manager plugged by an earlier scenario of this process is not re-used
        SHARED.update({"pm": None, "plan": None, "step": None, "ctx": None, "sink": None, "configs": {}, "plugged": False, "transforms": {}})
    for op in ops:
        if op["op"] == "reseed":
            np.random.seed(op["a"])
        elif op["op"] == "draw":
            np.random.random()
        elif op["op"] == "reuse":
            reuse = not reuse
        elif op["op"] == "nest":
            nest = not nest
        elif op["op"] == "proc":
            child = 0 if child else 1 + sum(1 for o in ops[:ops.index(op) + 1] if o["op"] == "proc")
        elif op["op"] == "plug":
            STATE["plugged"] = True
            if SHARED["pm"] is not None and not SHARED["plugged"]:
                SHARED["pm"].add_plugin("sampler", "rvneg", NegatingSamplerPlugin(), prioritize=True)
                SHARED["plugged"] = True
        elif op["op"] == "other":
            run_once(cfgs[op["a"]], 99, reuse, "other")
        else:
            if child:
                t, p, hasp, outcome = run_in_child(index[op["a"]], op["b"], STATE["plugged"], 100 + child, nest)
            else:
                t, p, hasp, outcome = run_once(cfgs[op["a"]], op["b"], reuse, "target", nest)
            raw.append((op["a"], op["b"], t, p, hasp, outcome, STATE["plugged"]))
    ids = {}
    trace = []
    for c, s, t, p, hasp, outcome, plug in raw:
        trace.append({"ev": "Run", "cfg": c, "seed": s, "plug": bool(plug), "trace": ids.setdefault(t, len(ids) + 1), "pert": ids.setdefault("p" + p, len(ids) + 1),
                      "haspert": bool(hasp), "outcome": outcome})
    targets = [i for i, o in enumerate(ops) if o["op"] == "target"]
    interference = any(ops[i]["op"] != "target" for i in range(targets[0] + 1, targets[-1])) if len(targets) >= 2 else False
    return trace, {"nontrivial": bool(interference), "key": str(ops), "catalogue_base": base}


def model_runs(tier):
    runs = [{"module": "MC_C16", "constants": {"L": 3 if tier == "quick" else 4}},
            {"module": "MC_C16", "constants": {"L": 3, "UsesGlobal": "TRUE", "Emit": "FALSE"}, "emit": False, "expect_violation": "Reproducible"},
            {"module": "MC_C16", "constants": {"L": 3, "UsesHistory": "TRUE", "Emit": "FALSE"}, "emit": False, "expect_violation": "Reproducible"},
            {"module": "MC_C16", "constants": {"L": 3, "UsesProcess": "TRUE", "Emit": "FALSE"}, "emit": False, "expect_violation": "Reproducible"},
            {"module": "MC_C16", "constants": {"L": 3, "UsesConcurrent": "TRUE", "Emit": "FALSE"}, "emit": False, "expect_violation": "Reproducible"}]
    return runs


def extra_scenarios(tier, seed):
    """Every catalogue configuration twice with heavy interference in between, and with another seed."""
    out = []
    n = len(catalogue())
    for k in range(n):
        out.append({"ops": [{"op": "target", "a": 1, "b": 1}, {"op": "reseed", "a": 7 + k, "b": 0}, {"op": "other", "a": 2, "b": 0},
                            {"op": "reuse", "a": 0, "b": 0}, {"op": "draw", "a": 0, "b": 0}, {"op": "target", "a": 1, "b": 1},
                            {"op": "target", "a": 1, "b": 2}, {"op": "target", "a": 1, "b": 1}], "force_base": k})
        # a re-used manager that has already resolved the method names, then a prioritised plug-in, then fresh managers
        out.append({"ops": [{"op": "reuse", "a": 0, "b": 0}, {"op": "target", "a": 1, "b": 1}, {"op": "plug", "a": 0, "b": 0},
                            {"op": "target", "a": 1, "b": 1}, {"op": "reuse", "a": 0, "b": 0}, {"op": "target", "a": 1, "b": 1},
                            {"op": "target", "a": 1, "b": 2}], "force_base": k})
    # everything re-used, the neighbouring configuration runs FIRST; then the target with re-used and with fresh objects
    for k in range(n):
        out.append({"ops": [{"op": "reuse", "a": 0, "b": 0}, {"op": "other", "a": 2, "b": 0}, {"op": "target", "a": 1, "b": 1},
                            {"op": "reuse", "a": 0, "b": 0}, {"op": "target", "a": 1, "b": 1}, {"op": "target", "a": 1, "b": 2}], "force_base": k})
    # the same run alone, with another optimization running inside it, and alone again
    for k in range(n):
        out.append({"ops": [{"op": "target", "a": 1, "b": 1}, {"op": "nest", "a": 0, "b": 0}, {"op": "target", "a": 1, "b": 1},
                            {"op": "reuse", "a": 0, "b": 0}, {"op": "target", "a": 1, "b": 1}, {"op": "nest", "a": 0, "b": 0},
                            {"op": "target", "a": 1, "b": 1}, {"op": "target", "a": 1, "b": 2}], "force_base": k})
    # the same run in this process and in two other interpreter processes (different string-hash salts)
    for k in range(n):
        out.append({"ops": [{"op": "target", "a": 1, "b": 1}, {"op": "proc", "a": 0, "b": 0}, {"op": "target", "a": 1, "b": 1},
                            {"op": "proc", "a": 0, "b": 0}, {"op": "proc", "a": 0, "b": 0}, {"op": "target", "a": 1, "b": 1},
                            {"op": "target", "a": 1, "b": 2}], "force_base": k})
    return out


_drive = drive


def drive(sc):  # noqa: F811
    if "force_base" in sc:
        global CATALOGUE
        if CATALOGUE is None:
            CATALOGUE = catalogue()
        k = sc["force_base"]
        import zlib as _z
        orig = _z.crc32
        try:
            _z.crc32 = lambda b: k
            return _drive(sc)
        finally:
            _z.crc32 = orig
    return _drive(sc)


CHECK = PropertyCheck(
    prop="C16", trace_module="Trace_C16", drive=drive, model_runs=model_runs, extra_scenarios=extra_scenarios,
    rule=("TLC enumerates every schedule of length 3 (thorough 4) over {reseed the global NumPy generator, draw from it, run another "
          "optimization, toggle re-use of the plug-in manager, run the target (cfg, seed)} containing >=2 target runs, and shows with the "
          "as-is switches that a run reading the global generator or left-over state violates the property; every schedule is executed "
          "in a worker process (the evaluator also reseeds the global generator during runs); the complete run is hashed. The "
          "configuration catalogue covers all six sampler methods (shared or not), two samplers, masks, CVaR filter, stddev, merged "
          "gradients, SLSQP / L-BFGS-B / COBYLA and differential evolution (serial and parallel) with an explicit seed. Non-trivial: "
          "an interfering action between two target runs."),
    assumptions=["bit-identity is compared through SHA-256 of the raw bytes of every evaluator request, value and result",
                 "the seed must change the perturbations only where a run evaluates perturbations"],
    pool=16,
)
