"""C05 - sort filter selects exactly the configured rank window of successful members."""
from __future__ import annotations

import numpy as np
from pydantic import ValidationError

from ropt.config.enopt import EnOptConfig
from ropt.exceptions import ConfigError

from ..core import PropertyCheck, nums, num
from ..ropt_util import TableEvaluator, ensemble_evaluator, outcome_of, plugin_manager

INF = float("inf")


def _decoy(n, a=7, b=3):
    return np.array([(a * i + b) % 5 - 2 for i in range(n)], dtype=np.float64)


def _flavour(sc):
    if sc["multi"]:
        return "multi"
    if (sum(sc["val"]) + sc["first"] + sc["last"] + sum(sc["failed"])) % 2:
        return "con"
    # "objneg": the one ranked objective carries a NEGATIVE configured weight and the evaluator returns -val for it, so the
    # sort value (weight x objective) is val as in the other flavours; the reported function value is negated when recorded
    return "objneg" if (sc["n"] + sc["last"]) % 2 else "obj"


def build_sort(sc, lead=0):
    n = sc["n"]
    val = np.array(sc["val"], dtype=np.float64)
    cfg = {"variables": {"initial_values": [0.0, 0.0]},
           # (when every realization fails the threshold is lowered to zero: it is the filter that has nothing to select)
           "realizations": {"weights": [float(w) for w in sc["cw"]], "realization_min_success": 0 if all(sc["failed"]) else 1}}
    fl = _flavour(sc)
    opts = {"first": sc["first"], "last": sc["last"]}
    if fl == "multi":
        # three objectives, the sort key uses a strict subset (0 and 2); the heavily weighted objective 1 must not matter
        objs, cons = np.stack([val, 10.0 * _decoy(n), np.array(sc["o2"], dtype=np.float64)], axis=1), None
        cfg["objectives"] = {"weights": [1.0, 5.0, 2.0], "realization_filters": [0, -1, 0]}
        cfg["realization_filters"] = [{"method": "sort-objective", "options": {"sort": [2, 0] if (n + sc["first"]) % 2 else [0, 2], **opts}}]
        col = ("obj", 0)
    elif fl in ("obj", "objneg"):
        objs, cons = np.stack([_decoy(n), val if fl == "obj" else -val], axis=1), None
        cfg["objectives"] = {"weights": [1.0, 3.0] if fl == "obj" else [4.0, -1.0], "realization_filters": [-1, 0]}
        cfg["realization_filters"] = [{"method": "sort-objective", "options": {"sort": [1], **opts}}]
        col = ("obj" if fl == "obj" else "objneg", 1)
    else:
        objs, cons = _decoy(n)[:, None].copy(), np.stack([_decoy(n), val], axis=1)
        cfg["nonlinear_constraints"] = {"lower_bounds": [-5.0, -INF], "upper_bounds": [0.0, 0.0],
                                        "realization_filters": [-1, 0]}
        cfg["realization_filters"] = [{"method": "sort-constraint", "options": {"sort": 1, **opts}}]
        col = ("con", 1)
    if lead:        # configured but unreferenced filters in front of the one in use
        unused = [{"method": "cvar-objective", "options": {"sort": [0], "percentile": 0.5}},
                  {"method": "sort-objective", "options": {"sort": [0], "first": 0, "last": 0}}][:lead]
        cfg["realization_filters"] = unused + cfg["realization_filters"]
        for sect in ("objectives", "nonlinear_constraints"):
            if sect in cfg and "realization_filters" in cfg[sect]:
                cfg[sect]["realization_filters"] = [i + lead if i >= 0 else i for i in cfg[sect]["realization_filters"]]
        if fl == "con":
            # ... of which the first one is IN USE: a constraint filter on the other constraint that runs before the judged one
            cfg["realization_filters"][0] = {"method": "cvar-constraint", "options": {"sort": 0, "percentile": 1.0}}
            maps = list(cfg["nonlinear_constraints"]["realization_filters"])
            maps[0] = 0
            cfg["nonlinear_constraints"]["realization_filters"] = maps
    return EnOptConfig.model_validate(cfg), objs, cons, col


def _inject(objs, cons, failed, spread):
    o = objs.copy(); c = None if cons is None else cons.copy()
    for i in np.where(failed)[0]:
        if not spread:
            o[i, :] = np.nan
            if c is not None:
                c[i, :] = np.nan
        elif c is not None and i % 2 == 0:
            c[i, 0] = np.nan
        else:
            o[i, -1] = np.nan
    return o, c


class _Pert:
    """Wraps a table evaluator so that it also serves perturbed rows (same per-realization values)."""

    def __init__(self, inner):
        self.inner = inner

    def __call__(self, variables, context):
        return self.inner(variables, context)


def drive_sort(sc):
    failed = np.array(sc["failed"], dtype=bool)
    base = {k: sc[k] for k in ("n", "val", "o2", "failed", "first", "last", "cw", "multi")}
    config, objs, cons, col = build_sort(sc)
    trace = []
    calls = {"n": 0}
    # direct
    def direct():
        flt = plugin_manager().get_plugin("realization_filter", method=config.realization_filters[0].method).create(config, 0)
        o, c = _inject(objs, cons, failed, spread=False)
        return flt.get_realization_weights(o, c)
    try:
        w, outcome = outcome_of(direct)
    except Exception:  # pragma: no cover
        raise
    if outcome in ("exc:ConfigError", "exc:ValidationError", "exc:ValueError"):
        outcome = "rejected"
    trace.append({**base, "ev": "Sort", "via": "direct", "outcome": outcome,
                  "w": nums(w) if w is not None else [], "value": num(None)})
    # end to end
    o, c = _inject(objs, cons, failed, spread=True)
    ev = TableEvaluator(o, c)
    res, outcome = outcome_of(lambda: ensemble_evaluator(config, ev).calculate(
        np.zeros(2), compute_functions=True, compute_gradients=False))
    if outcome in ("exc:ConfigError", "exc:ValidationError", "exc:ValueError"):
        outcome = "rejected" if not ev.calls else "exc:late_config_error"
    w = value = None
    if res is not None:
        r = res[0]
        rows = r.realizations.objective_weights if col[0] != "con" else r.realizations.constraint_weights
        w = None if rows is None else rows[col[1]]
        if r.functions is None:
            outcome = "nofunctions"
        else:
            value = (r.functions.objectives if col[0] != "con" else r.functions.constraints)[col[1]]
            value = -value if col[0] == "objneg" else value
    trace.append({**base, "ev": "Sort", "via": "e2e", "outcome": outcome,
                  "w": nums(w) if w is not None else [], "value": num(value)})
    # the same through a combined function + gradient evaluation (what speculative optimizers request)
    # - as the second evaluation of that evaluator (the first one: no failures, other values), with unreferenced filters in front
    if outcome != "rejected":
        from .c04 import _WarmTable
        lead = 1 + (sc["n"] + sc["first"]) % 2
        config2, *_ = build_sort(sc, lead=lead)
        ev2 = _WarmTable(o, c, -objs[::-1].copy(), None if cons is None else -cons[::-1].copy())
        ee2 = ensemble_evaluator(config2, _Pert(ev2))
        outcome_of(lambda: ee2.calculate(np.ones(2), compute_functions=True, compute_gradients=False))
        res, outcome2 = outcome_of(lambda: ee2.calculate(
            np.zeros(2), compute_functions=True, compute_gradients=True))
        w = value = None
        if res is not None:
            r = res[0]
            rows = r.realizations.objective_weights if col[0] != "con" else r.realizations.constraint_weights
            w = None if rows is None else rows[col[1]]
            if r.functions is None:
                outcome2 = "nofunctions"
            else:
                value = (r.functions.objectives if col[0] != "con" else r.functions.constraints)[col[1]]
                value = -value if col[0] == "objneg" else value
        trace.append({**base, "ev": "Sort", "via": "e2e", "outcome": outcome2,
                      "w": nums(w) if w is not None else [], "value": num(value)})
    # functions, then the gradient requested separately at the same point: the weights in force for the gradient are the same
    if outcome != "rejected":
        ee4 = ensemble_evaluator(config, _Pert(TableEvaluator(o, c)))
        fres, outcome4 = outcome_of(lambda: ee4.calculate(np.zeros(2), compute_functions=True, compute_gradients=False))
        w = None
        if fres is not None and fres[0].functions is None:
            outcome4 = "nofunctions"
        elif fres is not None:
            gres, outcome4 = outcome_of(lambda: ee4.calculate(np.zeros(2), compute_functions=False, compute_gradients=True))
            if gres is not None:
                rows = gres[-1].realizations.objective_weights if col[0] != "con" else gres[-1].realizations.constraint_weights
                w = None if rows is None else rows[col[1]]
        trace.append({**base, "ev": "Sort", "via": "gradient", "outcome": outcome4, "w": nums(w) if w is not None else [], "value": num(None)})
    # the same ensemble as the FIRST vector of a two-vector batch of an evaluator step (the second vector evaluates without
    # failures): the step ends with TOO_FEW_REALIZATIONS exactly when the window selects nothing for the first vector
    if outcome != "rejected":
        trace.append({**base, "ev": "Sort", "via": "e2e", "step_batch": True, **_step_batch(config, o, c, objs, cons, col)})
    n, nsucc = sc["n"], int((~failed).sum())
    valid = sc["first"] <= sc["last"] < n
    feats = {"nontrivial": bool(valid and (sc["last"] - sc["first"] + 1 < nsucc or (failed.any() and sc["last"] >= nsucc))),
             "key": f"sort|{_flavour(sc)}|{sc['val']}|{sc['o2']}|{sc['failed']}|{sc['first']}-{sc['last']}|{sc['cw']}",
             "valid_window": valid, "fam": sc.get("fam", "perm")}
    return trace, feats


def _step_batch(config, o, c, objs, cons, col):
    from ropt.enums import EventType, OptimizerExitCode
    from ropt.plan import OptimizerContext, Plan
    from ropt.results import FunctionResults
    tables = {0: TableEvaluator(o, c), 1: TableEvaluator(objs, cons)}

    def evaluator(variables, context):
        first = variables[:, 0] < 0.5            # rows of the first vector (all zeros); the second one is all ones
        res = tables[1](variables, context)
        sick = tables[0](variables, context)
        res.objectives[first] = sick.objectives[first]
        if res.constraints is not None:
            res.constraints[first] = sick.constraints[first]
        return res
    seen = []
    ctx = OptimizerContext(evaluator=evaluator, plugin_manager=plugin_manager())
    ctx.add_observer(EventType.FINISHED_EVALUATION, lambda e: seen.extend(e.data["results"]))
    plan = Plan(ctx)
    step = plan.add_step("evaluator")
    code, outcome = outcome_of(lambda: plan.run_step(step, config=config, variables=np.array([[0.0, 0.0], [1.0, 1.0]])))
    fr = [r for r in seen if isinstance(r, FunctionResults)]
    w = value = None
    if outcome == "ok":
        if len(fr) != 2:
            outcome = "batch_results_missing"
        else:
            r = fr[0]
            rows = r.realizations.objective_weights if col[0] != "con" else r.realizations.constraint_weights
            w = None if rows is None else rows[col[1]]
            # (with zero configured weights the window may select nothing for the second vector as well)
            expected = (OptimizerExitCode.TOO_FEW_REALIZATIONS if any(x.functions is None for x in fr)
                        else OptimizerExitCode.EVALUATION_STEP_FINISHED)
            if code != expected:
                outcome = ("too_few_not_signalled_by_the_step_exit_code" if expected == OptimizerExitCode.TOO_FEW_REALIZATIONS
                           else "step_exit_code_" + str(code))
            elif r.functions is None:
                outcome = "nofunctions"
            else:
                value = (r.functions.objectives if col[0] != "con" else r.functions.constraints)[col[1]]
                value = -value if col[0] == "objneg" else value
    return {"outcome": outcome, "w": nums(w) if w is not None else [], "value": num(value)}


class _ActiveTable(TableEvaluator):
    """Follows the documented protocol: entries flagged inactive are not computed (zeros are returned for them)."""

    def __call__(self, variables, context):
        res = super().__call__(variables, context)
        real = context.realizations
        # (a failure stays a failure: only values that were computed are withheld)
        if context.active_objectives is not None:
            res.objectives[~context.active_objectives[:, real].T & ~np.isnan(res.objectives)] = 0.0
        if context.active_constraints is not None and res.constraints is not None:
            res.constraints[~context.active_constraints[:, real].T & ~np.isnan(res.constraints)] = 0.0
        return res


def drive_map(sc):
    n = sc["n"]
    val = np.array(sc["val"], dtype=np.float64)
    failed = np.array(sc["failed"], dtype=bool)
    m = sc["map"]
    objs = np.stack([val, _decoy(n)], axis=1)
    cons = np.stack([_decoy(n, 3, 1), -val], axis=1)
    cfg = {"variables": {"initial_values": [0.0, 0.0]},
           "realizations": {"weights": [float(w) for w in sc["cw"]], "realization_min_success": 1},
           # three estimator entries (all the mean) addressed by maps that are not monotone
           "objectives": {"weights": [1.0, 1.0], "realization_filters": m[:2], "function_estimators": [2, 0]},
           "nonlinear_constraints": {"lower_bounds": [-INF, -INF], "upper_bounds": [0.0, 0.0], "realization_filters": m[2:],
                                     "function_estimators": [1, 0]},
           "function_estimators": [{"method": "mean"}, {"method": "mean"}, {"method": "mean"}],
           "realization_filters": [
               {"method": "sort-objective", "options": {"sort": [0], "first": sc["first"], "last": sc["last"]}},
               {"method": "sort-constraint", "options": {"sort": 1, "first": sc["first2"], "last": sc["last2"]}}]}
    config = EnOptConfig.model_validate(cfg)
    o, c = _inject(objs, cons, failed, spread=True)
    ev = _ActiveTable(o, c)
    res, outcome = outcome_of(lambda: ensemble_evaluator(config, ev).calculate(
        np.zeros(2), compute_functions=True, compute_gradients=False))
    ow = [[], []]; cw = [[], []]
    fvals = nums([None] * 4)
    if res is not None:
        r = res[0]
        if r.functions is None:
            outcome = "nofunctions"
        else:
            fvals = nums(list(r.functions.objectives) + list(r.functions.constraints))
        if r.realizations.objective_weights is not None:
            ow = nums(r.realizations.objective_weights)
        if r.realizations.constraint_weights is not None:
            cw = nums(r.realizations.constraint_weights)
    ev_ = {"ev": "SortMap", **{k: sc[k] for k in ("n", "val", "failed", "cw", "map", "first", "last", "first2", "last2")},
           "outcome": outcome, "ow": ow, "cwt": cw, "fvals": fvals,
           "cols": [[int(v) for v in col] for col in (objs[:, 0], objs[:, 1], cons[:, 0], cons[:, 1])]}
    feats = {"nontrivial": any(x >= 0 for x in m) and any(x < 0 for x in m) or len(set(m)) == 3,
             "key": f"map|{sc['val']}|{sc['failed']}|{m}|{sc['first']}-{sc['last']}|{sc['first2']}-{sc['last2']}",
             "unfiltered_next_to_filtered": any(x >= 0 for x in m) and any(x < 0 for x in m), "fam": "map"}
    return [ev_], feats


def drive(sc):
    return drive_map(sc) if sc.get("fam") == "map" else drive_sort(sc)


def model_runs(tier):
    if tier == "quick":
        return [{"module": "MC_C05", "constants": {"NMax": 4, "Family": '"perm"'}},
                {"module": "MC_C05", "constants": {"NMax": 3, "Family": '"multi"'}},
                {"module": "MC_C05", "constants": {"Family": '"map"'}}]
    return [{"module": "MC_C05", "constants": {"NMax": 5, "Family": '"perm"'}, "heap": "8g"},
            {"module": "MC_C05", "constants": {"NMax": 4, "Family": '"multi"'}},
            {"module": "MC_C05", "constants": {"Family": '"map"'}}]


def extra_scenarios(tier, seed):
    rng = np.random.default_rng(seed)
    out = []
    for _ in range(300 if tier == "quick" else 3000):
        n = int(rng.integers(5, 11))
        first = int(rng.integers(0, n)); last = int(rng.integers(first, n))
        cw = [int(x) for x in rng.integers(0, 4, n)]
        if sum(cw) == 0:
            cw[0] = 1
        out.append({"n": n, "val": [int(v) for v in rng.integers(-4, 5, n)], "o2": [0] * n,
                    "failed": [bool(b) for b in rng.random(n) < 0.25], "first": first, "last": last, "cw": cw,
                    "multi": False, "map": [0, -1, -1, -1], "first2": 0, "last2": 0, "fam": "random"})
    return out


CHECK = PropertyCheck(
    prop="C05", trace_module="Trace_C05", drive=drive, model_runs=model_runs, extra_scenarios=extra_scenarios,
    rule=("TLC enumerates every (n, permutation, failure mask, window incl. invalid ones, weight pattern), two-objective keys "
          "with ties, and every filter-index map in {-1,0,1}^4 over 2 objectives + 2 constraints with two sort filters; "
          "random larger ensembles with ties. Non-trivial: window strictly inside the successes or emptied by failures / "
          "map mixing filtered and unfiltered functions; distinct by full scenario."),
    assumptions=["configured weights are compared after normalisation to sum one",
                 "'rejected at configuration time' = a ConfigError/ValidationError before the first evaluator call",
                 "ties in the sort key: any order among tied members accepted"],
    trace_chunk=1500,
)
