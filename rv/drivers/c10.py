"""C10 - perturbed variables honour magnitudes and boundary-type semantics."""
from __future__ import annotations

import numpy as np

from ropt.config.enopt import EnOptConfig
from ropt.ensemble_evaluator import EnsembleEvaluator
from ropt.enums import BoundaryType, PerturbationType
from ropt.evaluator import EvaluatorResult
from ropt.results import GradientResults

from ..core import PropertyCheck, nums
from ..graddrive import DesignPlugin, manager

INF_Q = 1000000
TYPES = ["none", "truncate", "mirror"]
BT = {"none": BoundaryType.NONE, "truncate": BoundaryType.TRUNCATE_BOTH, "mirror": BoundaryType.MIRROR_BOTH}


def q2f(v):
    return float("inf") if v >= INF_Q else float("-inf") if v <= -INF_Q else v / 4.0


def variables_of(sc):
    v0 = {k: sc[k] for k in ("x", "lb", "ub", "type", "ptype", "mag", "fnum", "fden")}
    v1 = dict(v0, type=TYPES[(TYPES.index(sc["type"]) + 1) % 3], ptype="abs", mag=1)
    v2 = dict(v0, lb=-INF_Q, ub=INF_Q, type="mirror", ptype="abs", mag=4)
    return [v0, v1, v2]


def drive(sc):
    vs = variables_of(sc)
    smax = sc.get("smax", 9)
    base = list(range(-smax, smax + 1))
    samples = [[s, -s if i % 2 else s + (1 if s < smax else 0), s] for i, s in enumerate(base)]
    P = len(samples)
    cfg = {
        "variables": {"initial_values": [q2f(v["x"]) for v in vs], "lower_bounds": [q2f(v["lb"]) for v in vs],
                      "upper_bounds": [q2f(v["ub"]) for v in vs]},
        "gradient": {"number_of_perturbations": P,
                     "perturbation_magnitudes": [v["mag"] / 4.0 if v["ptype"] == "abs" else v["fnum"] / v["fden"] for v in vs],
                     "perturbation_types": [int(PerturbationType.ABSOLUTE if v["ptype"] == "abs" else PerturbationType.RELATIVE) for v in vs],
                     "boundary_types": [int(BT[v["type"]]) for v in vs]},
        "samplers": [{"method": "rvdesign/design", "shared": True}],
    }
    from ropt.config.enopt import GradientConfig
    # the user's GradientConfig OBJECT is first used for another configuration (other bounds), then for this one
    gobj = GradientConfig(**cfg["gradient"])
    decoy = {"variables": {"initial_values": [0.0] * 3, "lower_bounds": [-7.0] * 3, "upper_bounds": [9.0] * 3}, "gradient": gobj,
             "samplers": cfg["samplers"]}
    EnOptConfig.model_validate(decoy)
    cfg["gradient"] = gobj
    config = EnOptConfig.model_validate(cfg)
    DesignPlugin.design = [samples]
    rows = []

    def evaluator(variables, context):
        if context.perturbations is not None:
            for x, p in zip(variables, context.perturbations):
                if p >= 0:
                    rows.append((int(p), x.copy()))
        return EvaluatorResult(objectives=variables.sum(axis=1, keepdims=True))

    ee = EnsembleEvaluator(config, None, evaluator, manager())
    # the judged evaluation is the second gradient evaluation of this evaluator (the first one at another point)
    ee.calculate(np.array([q2f(v["x"]) for v in vs]) * 0.5, compute_functions=True, compute_gradients=True)
    rows.clear()
    res = ee.calculate(np.array([q2f(v["x"]) for v in vs]), compute_functions=True, compute_gradients=True)
    gr = next(r for r in res if isinstance(r, GradientResults))
    rows.sort(key=lambda t: t[0])
    ev = {"ev": "Perturb", "vars": vs, "samples": samples,
          "pert": nums(gr.evaluations.perturbed_variables[0], exact=True),
          "rows": nums([r for _, r in rows], exact=True)}
    m = (sc["mag"] if sc["ptype"] == "abs" else sc["fnum"] * (sc["ub"] - sc["lb"]) // sc["fden"])
    leaves = any(not (sc["lb"] <= sc["x"] + m * s <= sc["ub"]) for s in base)
    return [ev], {"nontrivial": bool(leaves), "key": str(sc), "type": sc["type"]}


def model_runs(tier):
    return [{"module": "MC_C10", "constants": {"SMax": 9 if tier == "quick" else 20}}]


CHECK = PropertyCheck(
    prop="C10", trace_module="Trace_C10", drive=drive, model_runs=model_runs,
    rule=("TLC enumerates value x lower/upper bound (finite grid and +-inf) x boundary type x perturbation type x magnitude; each scenario is "
          "one gradient evaluation whose injected integer samples run over -SMax..SMax (overshoots of several bound widths), with two "
          "companion variables of other boundary types. Non-trivial: the raw perturbed value leaves the bounds for some sample."),
    assumptions=["dyadic magnitudes and integer samples make float arithmetic exact: values are compared exactly in units of 1/4",
                 "after a multi-width overshoot MIRROR_BOTH may return any in-bounds value"],
)
