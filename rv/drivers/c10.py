"""C10 - perturbed variables honour magnitudes and boundary-type semantics."""
from __future__ import annotations

import numpy as np

from ropt.config.enopt import EnOptConfig
from ropt.ensemble_evaluator import EnsembleEvaluator
from ropt.enums import BoundaryType, PerturbationType
from ropt.evaluator import EvaluatorResult
from ropt.results import GradientResults

from ..core import PropertyCheck, nums
from ..graddrive import DesignPlugin, manager
from ..transforms_util import make_transforms

INF_Q = 1000000
TYPES = ["none", "truncate", "mirror"]
BT = {"none": BoundaryType.NONE, "truncate": BoundaryType.TRUNCATE_BOTH, "mirror": BoundaryType.MIRROR_BOTH}


def q2f(v):
    return float("inf") if v >= INF_Q else float("-inf") if v <= -INF_Q else v / 4.0


def _coin(sc, what):
    """A reproducible coin per (scenario, purpose): the switches of the driver must not follow the parities of the model's grid."""
    import zlib
    return zlib.crc32(repr((what, sorted((k, v) for k, v in sc.items() if k != "smax"))).encode()) % 2 == 1


def variables_of(sc):
    v0 = {k: sc[k] for k in ("x", "lb", "ub", "type", "ptype", "mag", "fnum", "fden")}
    # (the second variable's magnitude is NEGATIVE in every second scenario: a magnitude is a factor, not a size)
    v1 = dict(v0, type=TYPES[(TYPES.index(sc["type"]) + 1) % 3], ptype="abs", mag=-1 if _coin(sc, "negative magnitude") else 1)
    # the third variable sits a quarter below a LARGE upper bound (131072): values within a relative 1e-5 of a bound are inside
    v2 = (dict(v0, x=524287, lb=-INF_Q, ub=524288, type="truncate", ptype="abs", mag=4) if _coin(sc, "large bound")
          else dict(v0, lb=-INF_Q, ub=INF_Q, type="mirror", ptype="abs", mag=4))
    return [v0, v1, v2]


def drive(sc):
    vs = variables_of(sc)
    smax = sc.get("smax", 9)
    base = list(range(-smax, smax + 1))
    samples = [[s, -s if i % 2 else s + (1 if s < smax else 0), s] for i, s in enumerate(base)]
    # two realizations, two samplers: sampler 0 (variables 1 and 3) shares its perturbations between the realizations,
    # sampler 1 (variable 2) draws them per realization - the second realization sees variable 2 with the opposite sign
    samples2 = [[a, -b, c] for a, b, c in samples]
    designs = [samples, samples2]
    P = len(samples)

    zero_weight = _coin(sc, "zero weight")

    def gradient_section():
        return {"number_of_perturbations": P, "samplers": [0, 1, 0],
                "perturbation_magnitudes": [v["mag"] / 4.0 if v["ptype"] == "abs" else v["fnum"] / v["fden"] for v in vs],
                "perturbation_types": [int(PerturbationType.ABSOLUTE if v["ptype"] == "abs" else PerturbationType.RELATIVE) for v in vs],
                "boundary_types": [int(BT[v["type"]]) for v in vs]}
    cfg = {
        # (variable types are the back-end's business: declaring variables INTEGER does not round their perturbations)
        "variables": {"initial_values": [q2f(v["x"]) for v in vs], "lower_bounds": [q2f(v["lb"]) for v in vs],
                      "upper_bounds": [q2f(v["ub"]) for v in vs], **({"types": [2, 1, 2]} if _coin(sc, "integer types") else {})},
        # (every second scenario: the second realization has weight zero and the gradient is requested separately from the
        #  functions - its perturbed vectors are evaluated and reported all the same)
        "realizations": {"weights": [1.0, 0.0] if zero_weight else [1.0, 1.0]},
        "gradient": gradient_section(),
        "samplers": [{"method": "rvdesign/design", "shared": True}, {"method": "rvdesign/design", "shared": False}],
    }
    from ropt.config.enopt import GradientConfig
    # the user's GradientConfig OBJECT is first used for another configuration (other bounds), then for this one
    gobj = GradientConfig(**cfg["gradient"])
    decoy = {"variables": {"initial_values": [0.0] * 3, "lower_bounds": [-7.0] * 3, "upper_bounds": [9.0] * 3}, "gradient": gobj,
             "samplers": cfg["samplers"]}
    EnOptConfig.model_validate(decoy)
    config = EnOptConfig.model_validate(dict(cfg, gradient=gobj))
    DesignPlugin.design = designs
    rows = []

    def evaluator(variables, context):
        if context.perturbations is not None:
            for x, r, p in zip(variables, context.realizations, context.perturbations):
                if p >= 0:
                    rows.append((int(r), int(p), x.copy()))
        return EvaluatorResult(objectives=variables.sum(axis=1, keepdims=True))

    def events(gr, transformed):
        rows.sort(key=lambda t: (t[0], t[1]))
        return [{"ev": "Perturb", "vars": vs, "samples": designs[r], "transformed": transformed, "realization": r + 1,
                 "pert": nums(gr.evaluations.perturbed_variables[r], exact=True),
                 "rows": nums([x for rr, _, x in rows if rr == r], exact=True)} for r in range(2)]

    x_user = np.array([q2f(v["x"]) for v in vs])
    ee = EnsembleEvaluator(config, None, evaluator, manager())
    # the judged evaluation is the second gradient evaluation of this evaluator (the first one at another point)
    ee.calculate(x_user * 0.5, compute_functions=True, compute_gradients=True)
    rows.clear()
    if zero_weight:
        ee.calculate(x_user, compute_functions=True, compute_gradients=False)
        rows.clear()
        res = ee.calculate(x_user, compute_functions=False, compute_gradients=True)
    else:
        res = ee.calculate(x_user, compute_functions=True, compute_gradients=True)
    trace = events(next(r for r in res if isinstance(r, GradientResults)), False)
    # the same with a variable transform (dyadic scales, offsets in units of 1/4): what the evaluator receives and what is
    # reported in the user domain must still be x + magnitude x sample, post-processed at the USER's bounds
    transforms = make_transforms(var_scales=[2.0, 0.5, 4.0], var_offsets=[0.25, -0.5, 1.0])
    # (this second configuration also carries an explicit variable mask that frees every variable)
    # (... and a sampler entry that no variable refers to BETWEEN the two that are in use: the indices in use are 0 and 2)
    config2 = EnOptConfig.model_validate(dict(cfg, gradient=dict(gradient_section(), samplers=[0, 2, 0]),
                                              samplers=[cfg["samplers"][0], {"method": "rvdesign/design", "shared": True}, cfg["samplers"][1]],
                                              variables=dict(cfg["variables"], mask=[True, True, True])),
                                         context=transforms)
    rows.clear()
    ee2 = EnsembleEvaluator(config2, transforms, evaluator, manager())
    res2 = ee2.calculate(transforms.variables.to_optimizer(x_user), compute_functions=True, compute_gradients=True)
    trace += events(next(r for r in res2 if isinstance(r, GradientResults)).transform_from_optimizer(transforms), True)
    m = (sc["mag"] if sc["ptype"] == "abs" else sc["fnum"] * (sc["ub"] - sc["lb"]) // sc["fden"])
    leaves = any(not (sc["lb"] <= sc["x"] + m * s <= sc["ub"]) for s in base)
    return trace, {"nontrivial": bool(leaves), "key": str(sc), "type": sc["type"]}


def model_runs(tier):
    return [{"module": "MC_C10", "constants": {"SMax": 9 if tier == "quick" else 20}},
            {"tlaps": "proofs/KernelProofs.tla"}]      # clip / mirror theorems for all integers


CHECK = PropertyCheck(
    prop="C10", trace_module="Trace_C10", drive=drive, model_runs=model_runs,
    rule=("TLC enumerates value x lower/upper bound (finite grid and +-inf) x boundary type x perturbation type x magnitude; each scenario is "
          "the second gradient evaluation of an evaluator over two realizations and two injected-design samplers (one shared, one per "
          "realization) whose integer samples run over -SMax..SMax (overshoots of several bound widths), with two companion variables of "
          "other boundary types, judged per realization, without and with a dyadic variable transform. Non-trivial: the raw perturbed value leaves the bounds for some sample."),
    assumptions=["dyadic magnitudes and integer samples make float arithmetic exact: values are compared exactly in units of 1/4",
                 "after a multi-width overshoot MIRROR_BOTH may return any in-bounds value"],
)
