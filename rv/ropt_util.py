"""Helpers shared by the drivers: config construction, scripted evaluators, outcome capture.
Only public ropt API is used."""
from __future__ import annotations

import numpy as np

from ropt.config.enopt import EnOptConfig
from ropt.ensemble_evaluator import EnsembleEvaluator
from ropt.enums import OptimizerExitCode
from ropt.evaluator import EvaluatorContext, EvaluatorResult
from ropt.exceptions import OptimizationAborted
from ropt.plugins import PluginManager

_PM: PluginManager | None = None


def plugin_manager() -> PluginManager:
    global _PM
    if _PM is None:
        _PM = PluginManager()
    return _PM


def outcome_of(fn):
    """Run fn(); return (result, outcome-string)."""
    try:
        return fn(), "ok"
    except OptimizationAborted as exc:
        return None, {OptimizerExitCode.TOO_FEW_REALIZATIONS: "toofew",
                      OptimizerExitCode.MAX_FUNCTIONS_REACHED: "maxfun",
                      OptimizerExitCode.USER_ABORT: "abort"}.get(exc.exit_code, f"aborted:{int(exc.exit_code)}")
    except Exception as exc:  # noqa: BLE001 - the escaping exception *is* the observation
        return None, f"exc:{type(exc).__name__}"


class TableEvaluator:
    """Evaluator returning prescribed per-realization rows (functions-only use).

    objs[r] / cons[r] are the rows returned for realization r, whatever the variables.
    """

    def __init__(self, objs, cons=None):
        self.objs = np.asarray(objs, dtype=np.float64)
        self.cons = None if cons is None else np.asarray(cons, dtype=np.float64)
        self.calls = []

    def __call__(self, variables, context: EvaluatorContext) -> EvaluatorResult:
        self.calls.append((variables.copy(), context.realizations.copy()))
        real = context.realizations
        return EvaluatorResult(
            objectives=self.objs[real, :].copy(),
            constraints=None if self.cons is None else self.cons[real, :].copy(),
        )


def ensemble_evaluator(config: EnOptConfig, evaluator, transforms=None) -> EnsembleEvaluator:
    return EnsembleEvaluator(config, transforms, evaluator, plugin_manager())
