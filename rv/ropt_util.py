"""Helpers shared by the drivers: config construction, scripted evaluators, outcome capture.
Only public ropt API is used."""
from __future__ import annotations

import numpy as np

from ropt.config.enopt import EnOptConfig
from ropt.ensemble_evaluator import EnsembleEvaluator
from ropt.enums import OptimizerExitCode
from ropt.evaluator import EvaluatorContext, EvaluatorResult
from ropt.exceptions import OptimizationAborted
from ropt.plugins import PluginManager

_PM: PluginManager | None = None


def plugin_manager() -> PluginManager:
    global _PM
    if _PM is None:
        _PM = PluginManager()
    return _PM


def outcome_of(fn):
    """Run fn(); return (result, outcome-string)."""
    try:
        return fn(), "ok"
    except OptimizationAborted as exc:
        return None, {OptimizerExitCode.TOO_FEW_REALIZATIONS: "toofew",
                      OptimizerExitCode.MAX_FUNCTIONS_REACHED: "maxfun",
                      OptimizerExitCode.USER_ABORT: "abort"}.get(exc.exit_code, f"aborted:{int(exc.exit_code)}")
    except Exception as exc:  # noqa: BLE001 - the escaping exception *is* the observation
        return None, f"exc:{type(exc).__name__}"


class TableEvaluator:
    """Evaluator returning prescribed per-realization rows (functions-only use).

    objs[r] / cons[r] are the rows returned for realization r, whatever the variables.
    """

    def __init__(self, objs, cons=None):
        self.objs = np.asarray(objs, dtype=np.float64)
        self.cons = None if cons is None else np.asarray(cons, dtype=np.float64)
        self.calls = []

    def __call__(self, variables, context: EvaluatorContext) -> EvaluatorResult:
        self.calls.append((variables.copy(), context.realizations.copy()))
        real = context.realizations
        return EvaluatorResult(
            objectives=self.objs[real, :].copy(),
            constraints=None if self.cons is None else self.cons[real, :].copy(),
        )


def ensemble_evaluator(config: EnOptConfig, evaluator, transforms=None) -> EnsembleEvaluator:
    return EnsembleEvaluator(config, transforms, evaluator, plugin_manager())


# ----------------------------------------------------------------------------- scripted optimizer
from ropt.plugins.optimizer.base import Optimizer, OptimizerPlugin  # noqa: E402


class ScriptedOptimizer(Optimizer):
    """Issues exactly the request sequence in ScriptPlugin.script through the optimizer callback.

    script items: {"f": bool, "g": bool, "x": list | None (None = the start vector), "batch": [[..],..] | None}
    The values handed back by the callback are appended to ScriptPlugin.returns.
    """

    def __init__(self, config, optimizer_callback):
        self._config = config
        self._cb = optimizer_callback

    def start(self, initial_values):
        ScriptPlugin.started_with = np.array(initial_values, dtype=np.float64).copy()
        mask = self._config.variables.mask
        x0 = initial_values if mask is None else initial_values[mask]
        opts = self._config.optimizer.options
        script = opts["script"] if isinstance(opts, dict) and "script" in opts else ScriptPlugin.script
        for number, item in enumerate(script, start=1):
            if ScriptPlugin.on_request is not None:
                ScriptPlugin.on_request(number)
            if item.get("batch") is not None:
                x = np.array(item["batch"], dtype=np.float64)
            elif item.get("x") is not None:
                x = np.array(item["x"], dtype=np.float64)
            else:
                x = np.array(x0, dtype=np.float64)
            ScriptPlugin.requests.append({"x": x.tolist(), "f": item["f"], "g": item["g"]})
            f, g = self._cb(x, return_functions=item["f"], return_gradients=item["g"])
            ScriptPlugin.returns.append((np.array(f).copy(), np.array(g).copy()))
        if ScriptPlugin.on_request is not None:
            ScriptPlugin.on_request(len(script) + 1)

    @property
    def allow_nan(self):
        return ScriptPlugin.allow_nan

    @property
    def is_parallel(self):
        return ScriptPlugin.parallel


class ScriptPlugin(OptimizerPlugin):
    script: list = []
    returns: list = []
    requests: list = []
    allow_nan = False
    parallel = False
    started_with = None
    on_request = None          # optional hook called with the request number before each request and before returning

    @classmethod
    def reset(cls, script, allow_nan=False, parallel=False, on_request=None):
        cls.script, cls.returns, cls.requests = list(script), [], []
        cls.allow_nan, cls.parallel, cls.started_with = allow_nan, parallel, None
        cls.on_request = on_request

    def create(self, config, optimizer_callback):
        return ScriptedOptimizer(config, optimizer_callback)

    def is_supported(self, method):
        return method.lower() == "script"


EXIT_NAMES = {0: "unknown", 1: "toofew", 2: "maxfun", 3: "nestedfailed", 4: "abort", 5: "finished", 6: "evalfinished"}


def exit_name(code) -> str:
    try:
        return EXIT_NAMES[int(code)]
    except Exception:  # noqa: BLE001
        return f"notacode:{type(code).__name__}"
