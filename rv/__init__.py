"""rv - conformance harness binding the TLA+ specification in /verif/spec to ropt."""
