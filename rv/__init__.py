"""rv - conformance harness binding the TLA+ specification in /verif/spec to ropt."""
import os

# many small linear-algebra calls in 16 worker processes: BLAS threading only hurts
for _v in ("OPENBLAS_NUM_THREADS", "OMP_NUM_THREADS", "MKL_NUM_THREADS"):
    os.environ.setdefault(_v, "1")
os.environ.setdefault("PYTHONHASHSEED", "0")
