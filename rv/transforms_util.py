"""Simple objective / constraint scalers built on ropt's public transform base classes (ropt ships only VariableScaler)."""
import numpy as np

from ropt.transforms import OptModelTransforms, VariableScaler
from ropt.transforms.base import NonLinearConstraintTransform, ObjectiveTransform


class ObjectiveScaler(ObjectiveTransform):
    def __init__(self, scales):
        self._s = np.asarray(scales, dtype=np.float64)

    def to_optimizer(self, objectives):
        return objectives / self._s

    def from_optimizer(self, objectives):
        return objectives * self._s

    def weighted_objective_from_optimizer(self, weighted_objective):
        # well defined when all objectives share one scale (the only way the harness uses it)
        if np.all(self._s == self._s[0]):
            return weighted_objective * self._s[0]
        return weighted_objective


class ConstraintScaler(NonLinearConstraintTransform):
    def __init__(self, scales):
        self._s = np.asarray(scales, dtype=np.float64)

    def bounds_to_optimizer(self, lower_bounds, upper_bounds):
        return lower_bounds / self._s, upper_bounds / self._s

    def to_optimizer(self, constraints):
        return constraints / self._s

    def from_optimizer(self, constraints):
        return constraints * self._s

    def nonlinear_constraint_diffs_from_optimizer(self, lower_diffs, upper_diffs):
        return lower_diffs * self._s, upper_diffs * self._s


def make_transforms(var_scales=None, var_offsets=None, obj_scales=None, con_scales=None):
    return OptModelTransforms(
        variables=None if var_scales is None and var_offsets is None else VariableScaler(
            None if var_scales is None else np.asarray(var_scales, dtype=np.float64),
            None if var_offsets is None else np.asarray(var_offsets, dtype=np.float64)),
        objectives=None if obj_scales is None else ObjectiveScaler(obj_scales),
        nonlinear_constraints=None if con_scales is None else ConstraintScaler(con_scales),
    )
