"""Generic recorder for whole plan runs: evaluator wrapper + observers + tracker -> events for spec/Ropt.tla."""
from __future__ import annotations

import numpy as np

from ropt.config.enopt import EnOptConfig
from ropt.enums import EventType, OptimizerExitCode
from ropt.exceptions import OptimizationAborted, PlanAborted
from ropt.plan import OptimizerContext, Plan
from ropt.results import FunctionResults, GradientResults

from .ropt_util import exit_name

ETYPE = {EventType.START_OPTIMIZER_STEP: "START_STEP", EventType.START_EVALUATOR_STEP: "START_STEP",
         EventType.FINISHED_OPTIMIZER_STEP: "FINISHED_STEP", EventType.FINISHED_EVALUATOR_STEP: "FINISHED_STEP",
         EventType.START_EVALUATION: "START_EVAL", EventType.FINISHED_EVALUATION: "FINISHED_EVAL"}
TOL = 1e-10


class RunRecorder:
    def __init__(self, evaluator, plugin_manager=None, abort_at_eval=0):
        self.user_evaluator = evaluator
        self.events = []
        self.ids = {}               # interning of fixed-variable values
        self.items = []             # (event index, item index, optimizer-domain objective)
        self.result_ids = {}
        self.nitems = 0
        self.mask = None
        self.R = 1
        self.abort_at_eval = abort_at_eval
        self.nevals = 0
        self.context = OptimizerContext(evaluator=self.evaluator, plugin_manager=plugin_manager)
        for et in EventType:
            self.context.add_observer(et, self.observe)

    # ---- evaluator wrapper
    def evaluator(self, variables, context):
        R = self.R
        perts = context.perturbations
        labels = []
        for i in range(variables.shape[0]):
            r = int(context.realizations[i]) + 1
            if perts is None:
                labels.append([i // R + 1, r, 0])
            else:
                p = int(perts[i])
                labels.append([1, r, 0 if p < 0 else p + 1])
        fixedids = []
        if self.mask is not None:
            for v in np.where(~self.mask)[0]:
                vals = sorted({float(x) for x in variables[:, v]})
                fixedids.append([self.ids.setdefault((int(v), x), len(self.ids) + 1) for x in vals])
        result = self.user_evaluator(variables, context)
        nan = np.isnan(result.objectives).any(axis=1)
        if result.constraints is not None:
            nan |= np.isnan(result.constraints).any(axis=1)
        self.events.append({"ev": "Call", "labels": labels, "fixedids": fixedids, "nanrow": [bool(b) for b in nan]})
        return result

    # ---- observers
    def observe(self, event):
        et = ETYPE[event.event_type]
        if et == "START_EVAL":
            self.nevals += 1
            if self.abort_at_eval and self.nevals == self.abort_at_eval:
                self.events.append(self._ev(et))
                self.events.append({"ev": "Abort"})
                raise OptimizationAborted(exit_code=OptimizerExitCode.USER_ABORT)
        self.events.append(self._ev(et))
        if et == "FINISHED_EVAL":
            results = event.data["results"]
            transformed = event.data.get("transformed_results", results)
            items = []
            # user-domain and optimizer-domain results must be the same evaluations, item by item
            aligned = len(results) == len(transformed) and all(
                type(r) is type(t) and np.array_equal(r.realizations.failed_realizations, t.realizations.failed_realizations)
                and (getattr(r, "functions", 0) is None) == (getattr(t, "functions", 0) is None)
                and (getattr(r, "gradients", 0) is None) == (getattr(t, "gradients", 0) is None)
                for r, t in zip(results, transformed))
            for r, t in zip(results, transformed):
                self.nitems += 1
                self.result_ids[id(r)] = self.result_ids[id(t)] = self.nitems    # either domain's object names the item
                self._keep = getattr(self, "_keep", []); self._keep += [r, t]
                failed = [bool(b) for b in t.realizations.failed_realizations]
                meta = r.metadata.get("tag", -1) if isinstance(r.metadata, dict) else -2
                self._metas = getattr(self, "_metas", []); self._metas.append(r.metadata)
                if isinstance(t, FunctionResults):
                    hasfun = t.functions is not None
                    obj = float(t.functions.weighted_objective) if hasfun else float("nan")
                    feas = True
                    ci = t.constraint_info
                    if ci is not None:
                        for viol in (ci.bound_violation, ci.linear_violation, ci.nonlinear_violation):
                            if viol is not None and np.any(viol > TOL):
                                feas = False
                    items.append({"id": self.nitems, "kind": "F", "hasfun": hasfun, "obj": obj, "nan": bool(np.isnan(obj)),
                                  "feas": feas, "failed": failed, "meta": int(meta)})
                else:
                    items.append({"id": self.nitems, "kind": "G", "hasfun": t.gradients is not None, "obj": float("nan"), "nan": True,
                                  "feas": True, "failed": failed, "meta": int(meta)})
            self.events.append({"ev": "Res", "items": items, "aligned": bool(aligned)})

    @staticmethod
    def _ev(et):
        return {"ev": "Ev", "etype": et}

    # ---- driving
    def run_step(self, plan, step, config, tracked=True, batch=1, strict=False, **kw):
        cfg = EnOptConfig.model_validate(config, context=kw.get("transforms"))
        self.mask = None if cfg.variables.mask is None else np.asarray(cfg.variables.mask)
        self.R = cfg.realizations.weights.size
        self.events.append({"ev": "Run", "R": int(self.R), "P": int(cfg.gradient.number_of_perturbations),
                            "minsucc": int(cfg.realizations.realization_min_success),
                            "maxfun": int(cfg.optimizer.max_functions or 0), "nfixed": 0 if self.mask is None else int((~self.mask).sum()),
                            "batch": int(batch), "tracked": bool(tracked), "strict": bool(strict), "meta": int((kw.get("metadata") or {}).get("tag", -1))})
        try:
            code = plan.run_step(step, config=config, **kw)
            self.events.append({"ev": "Exit", "code": exit_name(code)})
            return code
        except PlanAborted:
            self.events.append({"ev": "Exit", "code": "refused"})
        except Exception as exc:  # noqa: BLE001
            self.events.append({"ev": "Exit", "code": f"exc:{type(exc).__name__}"})
        return None

    def store(self, stored):
        """What a store handler accumulated, and whether result items share one metadata object."""
        metas = getattr(self, "_metas", [])
        shared = len({id(m) for m in metas}) < len(metas) and any(m for m in metas)
        self.events.append({"ev": "Store", "ids": [] if stored is None else [self.result_ids.get(id(r), -1) for r in stored],
                            "metashared": bool(shared)})

    def best(self, kept):
        self.events.append({"ev": "Best", "kept": 0 if kept is None else self.result_ids.get(id(kept), -1)})

    def finish(self):
        """Intern objectives to ranks; return the trace."""
        objs = sorted({it["obj"] for e in self.events if e["ev"] == "Res" for it in e["items"] if not np.isnan(it["obj"])})
        rank = {v: i + 1 for i, v in enumerate(objs)}
        for e in self.events:
            if e["ev"] == "Res":
                for it in e["items"]:
                    it["obj"] = 0 if np.isnan(it["obj"]) else rank[it["obj"]]
        return self.events
