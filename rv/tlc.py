"""Run TLC on modules of /verif/spec, parse its summary and PrintT output."""
from __future__ import annotations

import json
import os
import re
import shutil
import subprocess
import tempfile
import time
from dataclasses import dataclass, field
from pathlib import Path

VERIF = Path(__file__).resolve().parent.parent
SPEC = VERIF / "spec"
JAR = "/opt/veriftools/tla/tla2tools.jar:/opt/veriftools/tla/CommunityModules-deps.jar"


class MachineryError(Exception):
    """TLC/harness failure that is neither a pass nor a property violation (exit 2)."""


@dataclass
class TlcResult:
    module: str
    ok: bool                      # finished without invariant violation / error
    generated: int = 0
    distinct: int = 0
    depth: int = 0
    wall_s: float = 0.0
    emitted: list = field(default_factory=list)     # decoded JSON emitted by PrintT(ToJson(..))
    tuples: list = field(default_factory=list)      # raw <<...>> PrintT lines
    violated: str | None = None
    stdout: str = ""
    coverage: dict = field(default_factory=dict)    # action -> (distinct, total)


_scratch_root: Path | None = None


def scratch() -> Path:
    """Per-process scratch directory (outside /verif and /repo), removed at exit."""
    global _scratch_root
    if _scratch_root is None:
        base = os.environ.get("TMPDIR", "/tmp")
        _scratch_root = Path(tempfile.mkdtemp(prefix=f"rv-{os.getpid()}-", dir=base))
        import atexit
        atexit.register(lambda: shutil.rmtree(_scratch_root, ignore_errors=True))
    return _scratch_root


_SUMMARY = re.compile(r"^(\d+) states generated, (\d+) distinct states found", re.M)
_DEPTH = re.compile(r"The depth of the complete state graph search is (\d+)")
_VIOL = re.compile(r"Error: Invariant (\S+) is violated|Error: Action property (\S+) is violated|Error: Temporal properties were violated")
_COV = re.compile(r"^<(\w+) line \d+, col \d+ to line \d+, col \d+ of module (\w+)>: (\d+):(\d+)", re.M)


def run_tlc(module: str, cfg: str | None = None, *, workers: int = 1, env: dict | None = None,
            timeout: int = 3600, heap: str = "3g", coverage: bool = False,
            simulate: str | None = None, extra: list[str] | None = None,
            constants: dict | None = None) -> TlcResult:
    """Run TLC on SPEC/<module>.tla with SPEC/<cfg>.cfg (default: same name).

    `constants` rewrites `NAME = value` lines of the cfg into a scratch copy, so that
    tiers/slices share one cfg source.
    """
    cfg = cfg or module
    cfg_path = SPEC / f"{cfg}.cfg"
    md = scratch() / f"md-{module}-{time.time_ns()}"
    md.mkdir(parents=True)
    if constants:
        text = cfg_path.read_text()
        for k, v in constants.items():
            text, n = re.subn(rf"^(\s*){k}\s*=.*$", rf"\g<1>{k} = {v}", text, flags=re.M)
            if n == 0:
                raise MachineryError(f"constant {k} not in {cfg_path}")
        cfg_path = md / f"{cfg}.cfg"
        cfg_path.write_text(text)
    cmd = ["java", "-XX:+UseParallelGC", f"-XX:ParallelGCThreads={max(2, min(8, workers))}", f"-Xmx{heap}", "-cp", JAR, "tlc2.TLC",
           "-workers", str(workers), "-metadir", str(md / "states"), "-noGenerateSpecTE",
           "-config", str(cfg_path)]
    if coverage:
        cmd += ["-coverage", "1"]
    if simulate:
        cmd += ["-simulate", simulate]
    if extra:
        cmd += extra
    cmd.append(str(SPEC / f"{module}.tla"))
    full_env = dict(os.environ)
    if env:
        full_env.update({k: str(v) for k, v in env.items()})
    t0 = time.time()
    try:
        proc = subprocess.run(cmd, cwd=str(md), env=full_env, capture_output=True, text=True, timeout=timeout)
    except subprocess.TimeoutExpired as exc:
        raise MachineryError(f"TLC timeout on {module}") from exc
    finally:
        shutil.rmtree(md / "states", ignore_errors=True)
    out = proc.stdout
    res = TlcResult(module=module, ok=False, wall_s=time.time() - t0, stdout=out)
    m = None
    for m in _SUMMARY.finditer(out):
        pass
    if m:
        res.generated, res.distinct = int(m.group(1)), int(m.group(2))
    d = _DEPTH.search(out)
    if d:
        res.depth = int(d.group(1))
    v = _VIOL.search(out)
    if v:
        res.violated = v.group(1) or v.group(2) or "temporal"
    lines = out.splitlines()
    joined, buf = [], None
    for line in lines:              # TLC wraps long PrintT values over several lines: re-join tuples
        if buf is not None:
            buf += " " + line.strip()
            if line.rstrip().endswith(">>"):
                joined.append(buf.replace("<< ", "<<").replace(" >>", ">>")); buf = None
        elif line.startswith("<<") and not line.rstrip().endswith(">>"):
            buf = line.rstrip()
        else:
            joined.append(line)
    for line in joined:
        if line.startswith('"{') or line.startswith('"['):
            try:
                res.emitted.append(json.loads(json.loads(line)))
            except json.JSONDecodeError as exc:
                raise MachineryError(f"unparsable emission from {module}: {line[:200]}") from exc
        elif line.startswith("<<") and line.endswith(">>"):
            res.tuples.append(line)
    for c in _COV.finditer(out):
        res.coverage[c.group(1)] = (int(c.group(3)), int(c.group(4)))
    finished = "Model checking completed. No error has been found." in out or (
        simulate is not None and "Error:" not in out)
    res.ok = finished and res.violated is None
    if not res.ok and res.violated is None:
        tail = "\n".join(out.splitlines()[-40:])
        raise MachineryError(f"TLC failed on {module} (rc={proc.returncode}):\n{tail}\n{proc.stderr[-2000:]}")
    shutil.rmtree(md, ignore_errors=True)
    return res


_TUPLE = re.compile(r'^<<"(ACCEPT|REJECT)", (\d+), (\d+), "([^"]*)">>$')


def validate_traces(module: str, traces: list, *, cfg: str | None = None, chunk: int = 4000,
                    jobs: int = 16, timeout: int = 3600, env: dict | None = None) -> tuple[list[dict], TlcResult | None]:
    """Validate `traces` (list of event lists) against SPEC/<module>.tla.

    Returns one verdict per trace: {"verdict": "ACCEPT"|"REJECT", "l": int, "clause": str}.
    """
    from concurrent.futures import ThreadPoolExecutor
    verdicts: list[dict | None] = [None] * len(traces)
    jobs = min(jobs, 16)
    chunk = max(100, min(chunk, -(-len(traces) // 16)))      # spread over 16 JVMs, at most `chunk` traces each
    chunks = [(i, traces[i:i + chunk]) for i in range(0, len(traces), chunk)]
    agg: list[TlcResult] = []

    def one(item):
        base, part = item
        f = scratch() / f"traces-{module}-{base}-{time.time_ns()}.json"
        f.write_text(json.dumps(part))
        e = {"TRACE_FILE": str(f)}
        if env:
            e.update(env)
        try:
            res = run_tlc(module, cfg, workers=1, env=e, timeout=timeout)
        finally:
            f.unlink(missing_ok=True)
        if res.violated:
            raise MachineryError(f"trace spec {module} itself violated {res.violated}:\n" + "\n".join(res.stdout.splitlines()[-30:]))
        for line in res.tuples:
            m = _TUPLE.match(line)
            if m:
                tid = int(m.group(2)) - 1
                verdicts[base + tid] = {"verdict": m.group(1), "l": int(m.group(3)), "clause": m.group(4)}
        return res

    with ThreadPoolExecutor(max_workers=jobs) as ex:
        for r in ex.map(one, chunks):
            agg.append(r)
    missing = [i for i, v in enumerate(verdicts) if v is None]
    if missing:
        raise MachineryError(f"trace spec {module}: no verdict for traces {missing[:10]} (of {len(missing)})")
    total = None
    if agg:
        total = TlcResult(module=module, ok=True, generated=sum(r.generated for r in agg),
                          distinct=sum(r.distinct for r in agg), wall_s=sum(r.wall_s for r in agg))
    return verdicts, total  # type: ignore[return-value]


def run_tlapm(rel_path: str, timeout: int = 900) -> dict:
    """Check a TLAPS proof module (spec/<rel_path>) in a scratch directory; returns {"obligations": n, "proved": bool}."""
    import re
    import shutil
    import subprocess
    import tempfile
    import time
    src = SPEC / rel_path
    t0 = time.time()
    m, text = None, ""
    for attempt in range(3):            # a loaded machine can starve a back-end prover: try again with longer time-outs
        with tempfile.TemporaryDirectory(prefix="rvtlaps") as tmp:
            shutil.copy(src, tmp)
            cmd = ["tlapm"] + (["--stretch", str(3 * attempt)] if attempt else []) + [src.name]
            try:
                out = subprocess.run(cmd, cwd=tmp, capture_output=True, text=True, timeout=timeout)
                text = out.stdout + out.stderr
            except subprocess.TimeoutExpired:
                text = "tlapm timed out"
        m = re.search(r"All (\d+) obligations? proved", text)
        if m:
            break
        time.sleep(2 + 5 * attempt)
    if not m:
        raise MachineryError(f"TLAPS did not prove {rel_path}:\n" + "\n".join(text.splitlines()[-25:]))
    return {"module": rel_path, "obligations": int(m.group(1)), "proved": True, "wall_s": round(time.time() - t0, 2)}
