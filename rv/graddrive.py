"""Replay of one gradient-evaluation scenario (affine ensemble, injected design) into EnsembleEvaluator.
Shared by the C02, C03, C09 and C10 drivers."""
from __future__ import annotations

import numpy as np

from ropt.config.enopt import EnOptConfig
from ropt.ensemble_evaluator import EnsembleEvaluator
from ropt.evaluator import EvaluatorResult
from ropt.plugins import PluginManager
from ropt.plugins.sampler.base import Sampler, SamplerPlugin
from ropt.results import FunctionResults, GradientResults

from .core import num, nums
from .ropt_util import outcome_of

INF = float("inf")
EST = {"mean": 0, "std": 1}
MAGNITUDE = 0.25


class DesignSampler(Sampler):
    """A sampler with a fixed design: it builds its array once and hands the same object out at every call (the library
    must not scale or clip it in place)."""

    def __init__(self, enopt_config, sampler_index, mask, rng):  # noqa: ARG002
        self._mask = mask
        self._stored = None

    def generate_samples(self):
        if self._stored is None:
            d = np.array(DesignPlugin.design, dtype=np.float64)
            if self._mask is not None:
                d = np.where(self._mask, d, 0.0)          # the sampler contract: zero for variables not handled
            self._stored = d
        DesignPlugin.calls += 1
        return self._stored


class DesignPlugin(SamplerPlugin):
    design = None
    calls = 0

    def create(self, enopt_config, sampler_index, mask, rng):
        return DesignSampler(enopt_config, sampler_index, mask, rng)

    def is_supported(self, method):
        return method.lower() == "design"


def manager():
    pm = PluginManager()
    pm.add_plugin("sampler", "rvdesign", DesignPlugin())
    return pm


def _coin(sc, what):
    """A reproducible coin per (scenario, purpose): orthogonal switches of the drivers must not follow the model's own dimensions."""
    import zlib
    return zlib.crc32(repr((what, sc["rw"], sc["est"], sc["flt"], sc["nanF"], sc["nanP"], sc.get("shared"), sc["mask"])).encode()) % 2 == 1


def magnitude_of(sc):
    """Every second scenario perturbs by 2^-30 instead of 1/4: differences stay exact, but are far below 1e-8."""
    return 2.0 ** -30 if _coin(sc, "magnitude") else MAGNITUDE


def build_config(sc, **over):
    R = sc["R"]
    first, last = 0, (0 if R == 1 else R - 2)
    cfg = {
        "variables": {"initial_values": [float(v) for v in sc["x"]], "mask": sc["mask"]},
        "realizations": {"weights": [float(w) for w in sc["rw"]], "realization_min_success": sc["minsucc"]},
        "objectives": {"weights": [float(w) for w in sc["ow"]], "realization_filters": sc["flt"][:2],
                       "function_estimators": [EST[e] for e in sc["est"][:2]]},
        "nonlinear_constraints": {"lower_bounds": [-INF], "upper_bounds": [0.0], "realization_filters": sc["flt"][2:],
                                  "function_estimators": [EST[e] for e in sc["est"][2:]]},
        "function_estimators": [{"method": "mean"}, {"method": "mean" if sc["merged"] else "stddev"}],
        "realization_filters": [
            {"method": "sort-objective", "options": {"sort": [0], "first": first, "last": last}},
            {"method": "cvar-objective", "options": {"sort": [1], "percentile": 0.5}},
            {"method": "cvar-constraint", "options": {"sort": 0, "percentile": 0.5}},
            {"method": "sort-constraint", "options": {"sort": 0, "first": first, "last": last}}],
        "gradient": {"number_of_perturbations": sc["P"], "perturbation_min_success": sc["pms"],
                     "perturbation_magnitudes": magnitude_of(sc), "merge_realizations": bool(sc["merged"])},
        "samplers": [{"method": "rvdesign/design", "shared": bool(sc.get("shared", False))}],
    }
    if _coin(sc, "filter order"):
        # the ORDER of the configured filters is not part of the scenario: here the CVaR objective filter comes first
        fl = cfg["realization_filters"]
        fl[0], fl[1] = fl[1], fl[0]
        swap = {0: 1, 1: 0}
        cfg["objectives"]["realization_filters"] = [swap.get(m, m) for m in sc["flt"][:2]]
        cfg["nonlinear_constraints"]["realization_filters"] = [swap.get(m, m) for m in sc["flt"][2:]]
    if sc.get("nsamp", 1) == 2:       # two samplers assigned to disjoint variable sets (variable 2 to the second one)
        cfg["samplers"] = cfg["samplers"] * 2
        cfg["gradient"]["samplers"] = [0, 1, 0][: sc["V"]]
    # plug-in methods may be given as "method" or as "plugin/method": every second scenario uses the qualified spelling
    if _coin(sc, "qualified names"):
        for section in ("function_estimators", "realization_filters"):
            for entry in cfg[section]:
                entry["method"] = "default/" + entry["method"]
    # an estimator map that is all zeros may be left out - here for the constraints only, while the objectives keep theirs
    if EST[sc["est"][2]] == 0 and _coin(sc, "omit estimator map"):
        del cfg["nonlinear_constraints"]["function_estimators"]
    if list(sc["flt"][:2]) == [-1, -1] and _coin(sc, "omit filter map"):
        del cfg["objectives"]["realization_filters"]
    for k, v in over.items():
        cfg[k] = {**cfg.get(k, {}), **v}
    return EnOptConfig.model_validate(cfg)


class AffineEvaluator:
    """f_r(x) = a[r][f].x + b[r][f]; NaN injected per (realization, unperturbed | perturbation p)."""

    def __init__(self, sc):
        self.a = np.array(sc["a"], dtype=np.float64)       # (R, 3, V)
        self.b = np.array(sc["b"], dtype=np.float64)       # (R, 3)
        self.nanF, self.nanP = sc["nanF"], sc["nanP"]
        self.calls = []

    def __call__(self, variables, context):
        perts = context.perturbations
        rows = np.empty((variables.shape[0], 3))
        for i, (x, r) in enumerate(zip(variables, context.realizations)):
            rows[i] = self.a[r] @ x + self.b[r]
            p = -1 if perts is None else int(perts[i])
            col = self.nanF[r] if p < 0 else self.nanP[r][p]
            if col:
                rows[i, col - 1] = np.nan
        if context.active is not None:
            # realizations flagged inactive as a whole need not be computed: this evaluator returns garbage for them
            # (a failure stays a failure: only values that were computed are replaced)
            idle = ~np.asarray(context.active, dtype=bool)[context.realizations]
            rows[idle[:, None] & ~np.isnan(rows)] = 12345.0
        self.calls.append({"n": variables.shape[0], "perts": None if perts is None else perts.tolist()})
        return EvaluatorResult(objectives=rows[:, :2].copy(), constraints=rows[:, 2:].copy())


def spanning_flags(gr: GradientResults, mask):
    """The precondition of C02, evaluated on the REPORTED perturbation differences."""
    free = np.ones(gr.evaluations.variables.size, dtype=bool) if mask is None else np.asarray(mask)
    delta = gr.evaluations.perturbed_variables - gr.evaluations.variables
    ok = ~np.isnan(gr.evaluations.perturbed_objectives[..., 0])
    flags, stack = [], []
    for r in range(delta.shape[0]):
        m = delta[r][ok[r]][:, free]
        stack.append(m)
        flags.append(_spans(m))
    return flags, _spans(np.vstack(stack)) if stack else False


def _spans(m):
    if m.shape[0] < m.shape[1] or m.shape[1] == 0:
        return False
    s = np.linalg.svd(m, compute_uv=False)
    s2 = s ** 2
    return bool(s2.sum() > 0 and s2.min() >= 0.01 * s2.sum() and np.linalg.matrix_rank(m) == m.shape[1])


def observe_fun(sc, cols, r: FunctionResults | None, outcome):
    failed = [c != 0 for c in sc["nanF"]]
    ev = {"ev": "Eval", "layout": "grad", "R": sc["R"], "rw": sc["rw"], "ow": sc["ow"], "est": sc["est"], "flt": sc["flt"],
          "cols": cols, "failed": failed, "minsucc": sc["minsucc"],
          "outcome": outcome, "failedObs": [False] * sc["R"], "obj": nums([None, None]), "con": nums([None]),
          "wobj": num(None), "orows": [], "crows": [], "stdneg": [False] * 3}
    sigma = [None] * 3
    if r is None:
        return ev, sigma
    ev["failedObs"] = [bool(b) for b in r.realizations.failed_realizations]
    if r.realizations.objective_weights is not None:
        ev["orows"] = nums(r.realizations.objective_weights)
    if r.realizations.constraint_weights is not None:
        ev["crows"] = nums(r.realizations.constraint_weights)
    if r.functions is None:
        ev["outcome"] = "nofunctions"
        return ev, sigma
    vals = list(r.functions.objectives) + list(r.functions.constraints)
    sigma = [float(v) for v in vals]
    if all(np.isnan(v) for v in vals):
        ev["outcome"] = "allnan"
        return ev, sigma
    sq = [v * v if sc["est"][i] == "std" else v for i, v in enumerate(vals)]
    ev["stdneg"] = [bool(sc["est"][i] == "std" and v < 0) for i, v in enumerate(vals)]
    ev["obj"], ev["con"] = nums(sq[:2]), nums(sq[2:])
    ev["wobj"] = num(r.functions.weighted_objective)
    return ev, sigma


def eval_grad(sc, mode="both"):
    """Returns (event, raw results, evaluator)."""
    DesignPlugin.design = sc["design"]
    DesignPlugin.calls = 0
    config = build_config(sc)
    ev = AffineEvaluator(sc)
    ee = EnsembleEvaluator(config, None, ev, manager())
    x = np.array(sc["x"], dtype=np.float64)
    a = np.array(sc["a"], dtype=np.float64); b = np.array(sc["b"], dtype=np.float64)
    cols = [[int(round(float(a[r, f] @ x + b[r, f]))) for r in range(sc["R"])] for f in range(3)]
    if mode == "both":
        res, outcome = outcome_of(lambda: ee.calculate(x, compute_functions=True, compute_gradients=True))
    elif mode == "near":
        # functions at a point a few ppm away, then a gradient-only request at x: nothing kept from the
        # other point may be used (the function values at x differ from those at the nearby point)
        def near():
            ee.calculate(x * (1 + 4e-6) + 3e-6, compute_functions=True, compute_gradients=False)
            return ee.calculate(x, compute_functions=False, compute_gradients=True)
        res, outcome = outcome_of(near)
    else:
        def split():
            f = ee.calculate(x, compute_functions=True, compute_gradients=False)
            if f[0].functions is None:          # an optimization stops here (TOO_FEW_REALIZATIONS): no gradient is requested
                return f
            g = ee.calculate(x, compute_functions=False, compute_gradients=True)
            return (*f, *g)
        res, outcome = outcome_of(split)
    fr = next((r for r in (res or ()) if isinstance(r, FunctionResults)), None)
    gr = next((r for r in (res or ()) if isinstance(r, GradientResults)), None)
    fun, sigma = observe_fun(sc, cols, fr, outcome)
    V, R = sc["V"], sc["R"]
    e = {"ev": "GradEval", "mode": mode,
         **{k: sc[k] for k in ("V", "mask", "x", "R", "P", "rw", "ow", "est", "flt", "a", "b", "minsucc", "pms", "merged",
                               "nanF", "nanP")},
         "shared": bool(sc.get("shared", False)), "ident": bool(sc.get("ident", False)),
         "outcome": outcome, "fun": fun, "funverdict": "check" if fr is not None else "skip",
         "failedG": [False] * R, "gst": "none", "grad": [[num(None)] * V for _ in range(3)], "wgrad": [num(None)] * V,
         "spanning": [False] * R, "spanningAll": False, "gradsig": [[num(None)] * V for _ in range(3)]}
    if gr is not None:
        e["failedG"] = [bool(v) for v in gr.realizations.failed_realizations]
        e["spanning"], e["spanningAll"] = spanning_flags(gr, config.variables.mask)
        if gr.gradients is None:
            e["gst"] = "nogradients"
        else:
            e["gst"] = "ok"
            g = np.vstack([gr.gradients.objectives, gr.gradients.constraints])
            rows = []
            for f in range(3):
                if sc["est"][f] == "std":
                    rows.append([_squared(g[f, v]) for v in range(V)])
                else:
                    rows.append(nums(g[f]))
            e["grad"] = rows
            # gradient of a standard deviation times the deviation reported by the same call (rational when the function and
            # the gradient use the same set of realizations)
            e["gradsig"] = [[(num(g[f, v] * sigma[f]) if sc["est"][f] == "std" and sigma[f] is not None and not np.isnan(sigma[f])
                              else num(None)) for v in range(V)] for f in range(3)]
            e["wgrad"] = nums(gr.gradients.weighted_objective)
    return e, res, ev


def _squared(g):
    """the gradient of a standard deviation is irrational, its square is rational: log g^2 with the sign of g."""
    n = num(g * g)
    n["zero"] = bool(g == 0.0)
    n["neg"] = bool(g < 0)
    return n


def features(sc, e):
    free = sum(sc["mask"])
    contributing = [r for r in range(sc["R"]) if sc["rw"][r] > 0 and not e["failedG"][r]]
    allspan = all(e["spanning"][r] for r in contributing) if contributing else False
    return {
        "nontrivial": bool(e["gst"] == "ok" and allspan and len(contributing) >= 2),
        "key": str({k: sc[k] for k in sc if k not in ("expect",)}),
        "merged": bool(sc["merged"]), "shared": bool(sc.get("shared")), "expect": sc.get("expect"),
        "any_failure": any(sc["nanF"]) or any(any(p) for p in sc["nanP"]), "free": free,
    }
