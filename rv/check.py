"""Entry point: /venv/bin/python -m rv.check C04 [--tier quick|thorough] [--replay file]"""
import importlib
import sys

from . import core


def main() -> int:
    if len(sys.argv) < 2:
        print("usage: python -m rv.check <property id> [--tier quick|thorough] [--replay path]")
        return 2
    prop = sys.argv[1].upper()
    modname = f"rv.drivers.{prop.lower()}"
    mod = importlib.import_module(modname)
    return core.run(mod.CHECK, modname, sys.argv[2:])


if __name__ == "__main__":
    sys.exit(main())
