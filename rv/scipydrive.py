"""Scripted SciPy client: replaces scipy.optimize.minimize / differential_evolution as imported by the ropt
SciPy plug-in, captures the callables and drives them in a prescribed order.  Shared by the C07 and C08 drivers."""
from __future__ import annotations

import numpy as np

import ropt.plugins.optimizer.scipy as rscipy
from ropt.plugins import PluginManager
from ropt.plugins.optimizer.scipy import SciPyOptimizer, SciPyOptimizerPlugin


class Captured:
    """What the plug-in handed to SciPy on the last call."""
    kind = None          # "minimize" | "de"
    kwargs = None
    script = None        # callable(captured kwargs) run in place of the algorithm


def fake_minimize(**kwargs):
    Captured.kind, Captured.kwargs = "minimize", kwargs
    if Captured.script is not None:
        Captured.script(kwargs)


def fake_de(**kwargs):
    Captured.kind, Captured.kwargs = "de", kwargs
    if Captured.script is not None:
        Captured.script(kwargs)


class patched:
    """Context manager installing the scripted client (or a wrapping of the real algorithms)."""

    def __init__(self, script=None, wrap_real=None):
        self.script, self.wrap_real = script, wrap_real

    def __enter__(self):
        self.saved = (rscipy.minimize, rscipy.differential_evolution)
        Captured.script = self.script
        if self.wrap_real is None:
            rscipy.minimize, rscipy.differential_evolution = fake_minimize, fake_de
        else:
            real_min, real_de = self.saved
            rscipy.minimize = lambda **kw: real_min(**self.wrap_real("minimize", kw))
            rscipy.differential_evolution = lambda **kw: real_de(**self.wrap_real("de", kw))
        return self

    def __exit__(self, *exc):
        rscipy.minimize, rscipy.differential_evolution = self.saved
        Captured.script = None
        return False


class LoggingSciPyPlugin(SciPyOptimizerPlugin):
    """The real SciPy plug-in with the optimizer callback wrapped so that every invocation is logged."""
    log: list = []

    def create(self, config, optimizer_callback):
        def cb(variables, *, return_functions, return_gradients):
            LoggingSciPyPlugin.log.append({"x": np.array(variables, dtype=np.float64).copy(),
                                           "f": bool(return_functions), "g": bool(return_gradients)})
            return optimizer_callback(variables, return_functions=return_functions, return_gradients=return_gradients)
        return SciPyOptimizer(config, cb)


def manager_with_logging():
    pm = PluginManager()
    pm.add_plugin("optimizer", "rvscipy", LoggingSciPyPlugin())
    return pm
