"""Regenerate MANIFEST.json from the table below (keeps the file valid and uniform)."""
import json
from pathlib import Path

VERIF = Path(__file__).resolve().parent.parent
PY = "/venv/bin/python"

CHECKS = {
    "C04": dict(
        text="TLC enumerates every ensemble size n<=4 (thorough n<=6), value ordering, failure mask, percentile k/12 and "
             "flavour; checks that the implementation-shaped CVaR (argsort/floor/remainder) refines the declarative tail-mass "
             "definition; every enumerated scenario is replayed through DefaultRealizationFilter and EnsembleEvaluator and "
             "each recorded result is judged by the TLA+ trace validator (Trace_C04), plus all k/D (D<=20) float percentiles.",
        note="Bounded instance; floats projected to fractions (denominator<=1e5, 1e-7); ties accepted in any order. Thorough: the n<=6 instance (3 million behaviours) is model-checked completely and every third behaviour is replayed (offset by VERIF_SEED).",
        design="4 (C04)"),
}

CHECKS["C01"] = dict(
    text="TLC enumerates ensembles x realization/objective weight vectors (with zeros) x estimator maps x filter-index maps "
         "(sort + CVaR, incl. 'no filter' next to filtered) x every failure set x NaN column x min-success and checks the "
         "implementation-shaped evaluation against the reduced-ensemble definition and the variance definition; every scenario is "
         "replayed as a single vector, inside a batch and through a plan evaluator step; Trace_C01 recomputes the expected values.",
    note="Bounded instance; std compared through its square; weighted objective compared when all objectives use the mean.",
    design="4 (C01)")
CHECKS["C05"] = dict(
    text="TLC enumerates every (n<=4 / 6, ordering, failure mask, window incl. invalid, weight pattern), tie-heavy two-objective keys "
         "and all 81 filter-index maps over 2 objectives + 2 constraints; the implementation-shaped slice is checked against the "
         "declarative tie-group window definition; scenarios replayed through the filter object and EnsembleEvaluator, traces "
         "validated by Trace_C05 (weights, TOO_FEW on empty selections, rejection of windows outside the ensemble, per-function mapping).",
    note="Bounded instance; configured weights compared after normalisation; rejection = ConfigError before the first evaluator call.",
    design="4 (C05)")

CHECKS["C02"] = dict(
    text="Affine-ensemble gradient kernel in TLA+ (Ensemble!GradEval): TLC checks that the reported quantity is the exact derivative "
         "(finite-difference identities for mean and for variance, weights in force fixed), zero on fixed variables, failed/zero-weight "
         "members excluded; scenarios (masks, injected designs incl. rank-deficient, slopes, weights, estimator/filter maps, failures, "
         "merged/identical) replayed through EnsembleEvaluator (combined and split); Trace_Grad judges every gradient entry; the "
         "conditioning precondition is evaluated on the reported perturbation matrix.",
    note="Bounded catalogue instance; SVD conditioning computed by NumPy in the harness enters as a Boolean; std gradients compared through squares.",
    design="4 (C02)")
CHECKS["C03"] = dict(
    text="Exhaustive fault enumeration by TLC over every subset of the R + R*P evaluations (2x2 quick; 3x2 and 2x3 thorough) x NaN column "
         "x both thresholds x filter kind x estimator; flags iff, gating, values of the reduced ensemble (Ensemble!InvReduce) and exit code "
         "of an optimizer step; each replayed combined, split and through a plan; judged by Trace_Grad.",
    note="Bounded ensemble sizes; larger ensembles sampled; filter weights for a gradient are those of the function evaluation.",
    design="4 (C03)")
CHECKS["C10"] = dict(
    text="Bounds.tla: code-shaped mirror/clip vs the allowed-output relation checked by TLC on value x bounds(+-inf) x type x "
         "perturbation type x magnitude x samples -9..9 (thorough -20..20); every scenario replayed with injected integer samples, "
         "reported perturbed variables and evaluator rows compared exactly (units of 1/4) by Trace_C10 (two samplers, two realizations, "
         "second evaluation of the evaluator, without and with a variable transform). TLAPS proves for ALL integers (proofs/KernelProofs.tla) "
         "that the code-shaped mirror stays within the bounds, never alters a value inside them and equals one / two reflections whenever "
         "those land inside.",
    note="Exact dyadic arithmetic; multi-width overshoots under MIRROR_BOTH may give any in-bounds value.",
    technique="TLA+ specification model-checked with TLC and, for the integer kernel, proved with TLAPS; TLC-generated scenarios replayed into ropt; recorded traces validated against the specification by TLC",
    design="4 (C10)")

CHECKS["C06"] = dict(
    text="Evaluator.tla models the request machine (function cache, which rows each call must ask for); TLC explores every call "
         "sequence of bounded length over {functions (batch), gradient, both} x 2 points with configuration variants; each is "
         "replayed twice (different garbage in inactive entries) with a label-encoding, optionally memoising evaluator; Trace_C06 "
         "checks rows-exactly-once, user-domain variables, value<->label correspondence, inactive=>zero weight, split-gradient "
         "completeness, ownership (no write/re-bind of evaluator data), snapshot immutability and garbage-independence.",
    note="Bounded call sequences; result equality across the garbage pair via interned SHA-256 signatures computed by the harness.",
    design="4 (C06)")

CHECKS["C12"] = dict(
    text="Tracker.tla: the fold over event items (code-shaped) is model-checked against the arg-min / most-recent definition over "
         "the whole history for every bounded history (NaN, ties, infeasible, missing functions, gradient items, untracked sources, "
         "sign-flipping transform, tolerance None); every history is emitted on a real Plan with a tracker handler and the kept "
         "result read back after each event; real BasicOptimizer runs (SLSQP/COBYLA, maximisation, NaN first) are validated too."
         " Attached specification Basic.tla (BasicOptimizer protocol: callbacks, several run() calls, function cache, budget, tracked best, exit codes, output redirection, descriptors) is model-checked and replayed into the real BasicOptimizer in the same check; this check reports the rejections whose clause it owns.",
    note="Bounded histories; violations chosen 0 or 10x tolerance; ties accept any minimiser.",
    design="4 (C12)")
CHECKS["C19"] = dict(
    text="PluginManager.tla: registry as ordered sequence; TLC checks no-duplicates, bare names never return non-discoverable "
         "plug-ins, qualified names consult only the named plug-in and manager independence (action property) over all call "
         "sequences of length 3 (thorough 4); every sequence is executed on real PluginManager objects and validated by Trace_C19, "
         "whose initial state is the registry discovered from the installation; plus random histories of length 4-8.",
    note="Optimizer plug-in type; test universe of three plug-ins with overlapping method sets.",
    design="4 (C19)")

CHECKS["C13"] = dict(
    text="ConstraintInfo.tla over extended integers: TLC checks violation = distance to the interval, outside a finite bound <=> "
         "positive violation, and that the violation is determined by the two reported differences, for value x every finite/infinite "
         "bound mix; each scenario replayed through a plan evaluator step (variable bounds, linear rows, non-linear constraints, with and "
         "without dyadic transforms) and a 'last' tracker; Trace_C13 compares every reported difference/violation exactly (also for values "
         "1/65536 beside a bound). TLAPS proves the three arithmetic facts for ALL integers (proofs/KernelProofs.tla)."
         " A second event per scenario replays the history 'transform object validated with a later configuration' (open known finding). "
         "Attached specification Basic.tla (medium instance) supplies the clause 'BasicOptimizer reports an infeasible result' (infeasibility through a variable bound or a constraint).",
    note="Integer data in units of 1/65536; bound differences may be absent only if no variable bound is finite.",
    technique="TLA+ specification model-checked with TLC and, for the integer kernel, proved with TLAPS; TLC-generated scenarios replayed into ropt; recorded traces validated against the specification by TLC",
    design="4 (C13)")

CHECKS["C07"] = dict(
    text="ScipyBackend.tla models the plug-in as a server of callables for an arbitrary client; TLC checks value-at-requested-point, "
         "never-evaluated-twice, no gradients for gradient-free classes and the split clauses for every request sequence (length 3; "
         "thorough 4) x parameters, and exhibits the as-is counterexample with CheckPoint=FALSE; every sequence is driven through the "
         "real plug-in by a scripted SciPy client (speculative on/off pair), plus population batches, longer histories and recordings "
         "of real SLSQP/L-BFGS-B/TNC/BFGS/COBYLA/Nelder-Mead/Powell/DE runs, all judged by the Trace_C07 monitor.",
    note="Bounded sequences over a pool of well separated points; returned gradients attributed to points within 0.5.",
    design="4 (C07)")

CHECKS["C08"] = dict(
    text="NormCons.tla: the row normalisation (index, rhs, flip, equality) is model-checked against configured feasibility for every "
         "combination of constraint kinds; the arguments the plug-in hands to minimize / differential_evolution are captured by the "
         "scripted client for every kind combination x method x mask x options x max_iterations, evaluated on an integer grid and judged "
         "by Trace_C08: feasibility equivalence in both directions, bounds object on free variables only, Jacobian = finite difference "
         "of the value, iteration limit forwarded, nothing dropped.",
    note="Affine integer constraints; 4x4 grid of test points; known finding: max_iterations dropped when options is None.",
    design="4 (C08)")

CHECKS["C15"] = dict(
    text="Plan.tla: a state machine with one action per delivery, evaluator call and step transition; TLC checks bracketing, delivery "
         "order (handlers of the emitting plan, ancestors, observers), the abort latch, propagation of a nested abort and termination "
         "(liveness under weak fairness) for every plan shape x run length x failure x budget x abort raised at every delivery of every "
         "emission and at every evaluator call; every scenario is executed on real plans and the recorded stream is replayed action by "
         "action against the model (Trace_C15, silent steps for unlogged transitions), including exit codes and refusal of later steps; "
         "every optimizer-step scenario also with optimizer.stdout redirection active."
         " Attached specification Basic.tla (BasicOptimizer protocol: callbacks, several run() calls, function cache, budget, tracked best, exit codes, output redirection, descriptors) is model-checked and replayed into the real BasicOptimizer in the same check; this check reports the rejections whose clause it owns.",
    note="Bounded runs (K<=2 outer, 1 inner evaluation quick); scripted optimizer back-end; 2 handlers per plan and 2 observers.",
    design="4 (C15)")

CHECKS["C14"] = dict(
    text="OptStep.tla: budget check / evaluation / judgement as actions; TLC checks budget respected, TOO_FEW iff a delivered "
         "evaluation failed, failing results delivered, documented exits, for every request pattern x failing index x failure class "
         "(threshold, emptied filter of each of the four kinds, stddev estimator, perturbations, all-NaN with min_success 0, raising "
         "evaluator) x max_functions x step kind x NaN tolerance x transforms; every scenario runs on a real plan, the recorded "
         "evaluations and exit are replayed against the model (Trace_C14). Attached specification Plan.tla (every third behaviour of the C15 instance: aborts at every delivery, nested plans) supplies the exit-code clauses of aborted and nested steps."
         " Attached specification Basic.tla (BasicOptimizer protocol: callbacks, several run() calls, function cache, budget, tracked best, exit codes, output redirection, descriptors) is model-checked and replayed into the real BasicOptimizer in the same check; this check reports the rejections whose clause it owns.",
    note="Scripted back-end; bounded run length (K<=2 quick, <=4 thorough); parallel batches covered by seeded-change experiments only.",
    design="4 (C14)")

CHECKS["C18"] = dict(
    text="ConfigCanon.tla: canonical projection and rejection predicate of symbolic raw configurations; TLC checks normalised weights "
         "(sum one, ratios preserved), clamped thresholds, broadcast lengths and ordered bounds over three families (weights/thresholds; "
         "bounds/masks/perturbation types/magnitudes in scalar, vector, wrong-length, crossed and infinite forms; constraint shapes); each "
         "is validated by EnOptConfig, dumped to JSON and re-validated, validated again as an object, and every attribute and array "
         "reachable from the result is mutation-tested; the same with a variable transform in the validation context (ScaledCanon: "
         "bounds and magnitudes in the optimizer domain) reached from the raw dictionary, from the dumped plain validation and twice "
         "from sections validated beforehand as objects, which must stay untouched; Trace_C18 compares all projections with the spec.",
    note="Dyadic magnitudes, scales and offsets; option dictionaries are not mutation-tested.",
    design="4 (C18)")

CHECKS["C17"] = dict(
    text="SamplerLayout.tla: index map from an abstract point sequence to Sample[r][p][v]; TLC checks zeros outside handled variables, "
         "point integrity, shared-identical and distinct-points for every R,P,V<=3 x mask x shared, and finds the counterexample for the "
         "as-is transposed layout; every scenario calls generate_samples() twice on real samplers of all six methods (single and two "
         "samplers) and observes the samplers an ensemble evaluator creates (fixed variable on top of the assignment) through a recording "
         "stand-in plug-in; QMC points are re-created from an identically seeded engine; Trace_C17 checks shape, zeros, range, shared/per-"
         "realization, point integrity and Latin-hypercube stratification.",
    note="Distributional quality is not examined; reference points used only when they demonstrably are the ones drawn.",
    design="4 (C17)")

CHECKS["C16"] = dict(
    text="Repro.tla: schedule machine over reseeding/drawing from the global NumPy generator, other optimizations, re-use of plug-in "
         "managers, other interpreter processes, prioritised plug-ins, runs nested inside an evaluator call of a run (Nest) and target runs; TLC checks that a target run is a function of (configuration, seed) and that the seed matters, for "
         "every schedule of length 3 (thorough 4), and finds the counterexamples for the as-is switches (run reads the global generator / "
         "left-over state); every schedule is executed in a process with a catalogue of configurations (all sampler methods and options, "
         "several samplers, filters, estimators, masks, deterministic and population optimizers with explicit seed), the full run is "
         "hashed and Trace_C16 checks equality/inequality of the interned hashes.",
    note="Bit-identity via SHA-256 of raw bytes; unscrambled Sobol'/Halton sequences are exempt from the seed-matters clause.",
    design="4 (C16)")

CHECKS["C11"] = dict(
    text="Transforms.tla in exact rational arithmetic: TLC checks round trip, bound feasibility equivalence, linear-row equivalence "
         "(offset absorption, column scaling, row equilibration) and back-transformed differences on grids for dyadic scales x offsets "
         "x bound kinds x rows; every scenario is run twice on a real plan (function + gradient evaluation with injected samples and "
         "overshoots) without and with variable/objective/constraint transforms; Trace_C11 requires identical evaluator vectors and "
         "user-domain results (variables, perturbed variables, per-realization values, functions, differences, violations) and checks "
         "the transformed configuration (bounds, linear row, magnitudes) against the spec.",
    note="Dyadic parameters; gradients excluded (reported in optimizer coordinates); objective/constraint scalers are harness classes on ropt's public base classes.",
    design="4 (C11)")

CHECKS["C09"] = dict(
    text="FixedVars.tla: completion of free-variable requests against the authoritative vector `fixed`, changed only by the start vector "
         "and by nested results; TLC checks that completion never touches masked-out entries for every mask x request script x nesting "
         "x sampler assignment; each scenario runs on a real plan (scripted back-end, and the real SciPy plug-in under the scripted "
         "client) started from explicit values with an injected design non-zero on all variables; Trace_C09 carries `fixed` through the "
         "events and checks every evaluator row, reported vector, gradient entry and the vector lengths the back-end sees; recorded real "
         "SLSQP/L-BFGS-B/Nelder-Mead/Powell/DE runs are validated on their rows.",
    note="Three variables; the inner optimisation is a plan function moving the complementary variables.",
    design="4 (C09)")

CHECKS["C20"] = dict(
    text="External.tla: two-process protocol (requests, answers, two FIFOs, child life cycle, parent polling loop) with a Kill fault "
         "action; TLC checks all interleavings for safety (death never success, user exception and stop codes propagate, success means "
         "complete) and liveness (eventually returns, weak fairness) over a grid of fault parameters and exhibits the as-is "
         "counterexample; crash points are replayed against real child processes through a wrapper executable (SIGKILL after the k-th "
         "message, injected algorithm error), evaluator exceptions, budget stops, and external/in-process pairs compared by hashing "
         "the complete evaluator traces; leftover processes are looked up in /proc.",
    note="Quick: 18 fault scenarios (kills after the k-th message, during the k-th evaluation, with redirected output, exit statuses, child errors) and 16 external/in-process pairs (masks, constraints, integer variables, large messages, restarts of one optimizer object, qualified back-end names, a launcher on PATH), about 30 s; thorough: every crash point for three methods and about 60 pairs; 120 s deadline = hang.",
    design="4 (C20)")

NOT_APPLICABLE = {}

def main():
    props = [json.loads(l) for l in (VERIF / "properties.jsonl").read_text().splitlines() if l.strip()]
    checks = []
    for p in props:
        pid = p["id"]
        if pid not in CHECKS:
            continue
        c = CHECKS[pid]
        checks.append({
            "property_id": pid,
            "quick_cmd": f"{PY} -m rv.check {pid} --tier quick",
            "thorough_cmd": f"{PY} -m rv.check {pid} --tier thorough",
            "evidence_file": f"/verif/evidence/{pid}.json",
            "replay_cmd_template": f"{PY} -m rv.check {pid} --replay {{path}}",
            "engine": "tlc+rv",
            "level_claimed": {"category": c.get("category", "model_checking"), "text": c["text"], "design_ref": f"DESIGN.md section {c['design']}"},
            "level_note": c["note"],
            "technique": c.get("technique", "TLA+ specification model-checked with TLC; TLC-generated scenarios replayed into ropt; recorded traces validated against the specification by TLC"),
        })
    na = [{"property_id": p["id"], "reason": NOT_APPLICABLE.get(p["id"], "check not built yet in this round (work in progress; see DESIGN.md section 4)")}
          for p in props if p["id"] not in CHECKS]
    manifest = {
        "version": 1,
        "setup_cmd": "cd /verif && sh tools/setup.sh",
        "hooks": {
            "guard": "TNO_ROPT_ROPT_VERIF",
            "enable": "no hooks are compiled in: all observation goes through public extension points (evaluator, observers, plug-ins, replaced SciPy entry points); the guard name is reserved",
            "baseline_off_cmd": "cd /repo && env -u TNO_ROPT_ROPT_VERIF /venv/bin/python -m pytest -ra -q -p no:cacheprovider --timeout=900 --continue-on-collection-errors",
            "source_commits": [],
            "add_only": True,
        },
        "engines": [
            {"name": "tlc+rv", "path": "/verif/rv", "serves_properties": sorted(CHECKS),
             "kind_free_text": "TLC 1.8 on /verif/spec (MC_* bounded instances emit scenarios, Trace_* validate recorded traces) + python harness rv replaying scenarios into /repo/src"},
        ],
        "checks": checks,
        "not_applicable": na,
        "notes": "Exit codes: 0 held, 1 violation (VIOLATION line), 2 machinery failure. Known findings and fixed defects: /verif/known_findings.json.",
    }
    (VERIF / "MANIFEST.json").write_text(json.dumps(manifest, indent=1) + "\n")


if __name__ == "__main__":
    main()
