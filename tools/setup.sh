#!/bin/sh
# Offline setup: parse every TLA+ module, byte-compile the harness, check imports.
set -e
cd /verif/spec
for f in *.tla; do
  tla-sany "$f" > /tmp/sany.$$ 2>&1 || { cat /tmp/sany.$$; rm -f /tmp/sany.$$; echo "SANY failed on $f"; exit 1; }
done
rm -f /tmp/sany.$$
cd /verif
/venv/bin/python -m compileall -q rv
/venv/bin/python -c "import ropt, rv.core, rv.tlc; print('setup ok')"
