"""Confirm a seeded change and run checks against it.

usage: seedtest.py <seed-source-dir> <seed-id> <property> [check ids to run ...]
  1. in a scratch worktree of /repo HEAD: demo passes without the patch; with the patch the full suite passes and the demo fails
  2. apply the patch to /repo, run the named quick checks, undo
  3. store patch.diff, demo.py, meta.json under /verif/seeded/<seed-id>/
"""
import json, os, shutil, subprocess, sys, time
from pathlib import Path

src, sid, prop, *checks = sys.argv[1:]
src = Path(src)
checks = checks or [prop]
wt = Path(f"/tmp/wt-verify-{sid}")
PY = "/venv/bin/python"


def sh(cmd, cwd=None, env=None, timeout=1800):
    e = dict(os.environ); e.update(env or {})
    p = subprocess.run(cmd, shell=True, cwd=cwd, env=e, capture_output=True, text=True, timeout=timeout)
    return p.returncode, p.stdout + p.stderr


subprocess.run(f"git -C /repo worktree remove --force {wt}", shell=True, capture_output=True)
rc, out = sh(f"git -C /repo worktree add -q --detach {wt} HEAD")
assert rc == 0, out
env = {"PYTHONPATH": f"{wt}/src"}
result = {"property": prop, "seed": sid}
try:
    rc0, o0 = sh(f"{PY} {src}/demo.py", cwd=wt, env=env)
    result["demo_without_change"] = "PASS" if rc0 == 0 else f"FAIL rc={rc0}"
    rc, out = sh(f"git apply {src}/patch.diff", cwd=wt)
    assert rc == 0, "patch does not apply: " + out
    rct, ot = sh(f"{PY} -m pytest -q -p no:cacheprovider --timeout=900 tests", cwd=wt, env=env)
    result["suite_with_change"] = ot.strip().splitlines()[-1]
    rc1, o1 = sh(f"{PY} {src}/demo.py", cwd=wt, env=env)
    result["demo_with_change"] = "FAIL" if rc1 != 0 else "PASS(!)"
    result["confirmed"] = bool(rc0 == 0 and rc1 != 0 and rct == 0 and " passed" in result["suite_with_change"] and "failed" not in result["suite_with_change"])
    # run the checks against the patched scratch worktree (imports resolve through PYTHONPATH); output redirected
    result["checks"] = {}
    outdir = f"/tmp/rv-seed-out-{sid}"
    cenv = dict(env); cenv.update({"RV_OUT": outdir, "PATH": "/venv/bin:" + os.environ["PATH"]})
    for c in checks:
        t = time.time()
        rc, out = sh(f"{PY} -m rv.check {c} --tier quick", cwd="/verif", env=cenv, timeout=3600)
        viol = [l for l in out.splitlines() if l.startswith("VIOLATION")]
        clauses = sorted({l.split("clause=")[1].split()[0] for l in viol if "clause=" in l})
        result["checks"][c] = {"exit": rc, "violation_lines": len(viol), "clauses": clauses, "wall_s": round(time.time() - t, 1),
                               "tail": out.strip().splitlines()[-1][:300] if out.strip() else ""}
    shutil.rmtree(outdir, ignore_errors=True)
finally:
    subprocess.run(f"git -C /repo worktree remove --force {wt}", shell=True, capture_output=True)
result["detected_by"] = [c for c, r in result["checks"].items() if r["exit"] == 1]
dst = Path("/verif/seeded") / sid
dst.mkdir(parents=True, exist_ok=True)
shutil.copy(src / "patch.diff", dst / "patch.diff")
shutil.copy(src / "demo.py", dst / "demo.py")
meta = {}
if (src / "meta.json").exists():
    try:
        meta = json.loads((src / "meta.json").read_text())
    except Exception:
        meta = {"raw": (src / "meta.json").read_text()}
meta.update({"property": prop, "breaks": prop, "what_it_needs": meta.get("needs", ""), "ran": result,
             "repo_head": subprocess.run("git -C /repo rev-parse --short HEAD", shell=True, capture_output=True, text=True).stdout.strip()})
(dst / "meta.json").write_text(json.dumps(meta, indent=1))
print(json.dumps(result, indent=1))
