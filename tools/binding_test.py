"""Binding test of the trace validators: corrupt one recorded field at a time and see whether the specification notices.

For a check id, a few scenarios of its first model run are replayed into the implementation; the accepted traces are then
mutated leaf by leaf (numbers shifted, Booleans flipped, strings altered, lists emptied) and validated again.  The report
lists, per field path (indices removed), how many mutations were rejected.  A field that is never rejected is either an
echo of the scenario that the validator does not need, or a recorded observation that nothing binds - the second kind is
a vacuity bug of the harness (this is how the never-recorded `values` of the C06 driver was found).

usage: /venv/bin/python tools/binding_test.py C06 [n_scenarios] [max_mutations_per_trace]
"""
from __future__ import annotations

import copy
import importlib
import json
import random
import re
import sys
from collections import defaultdict
from pathlib import Path

sys.path.insert(0, str(Path(__file__).resolve().parent.parent))
from rv import tlc  # noqa: E402


def leaves(obj, path=()):
    if isinstance(obj, dict):
        if set(obj) >= {"k", "n", "d"}:                      # a projected number: one leaf
            yield path, obj
            return
        for k, v in obj.items():
            yield from leaves(v, path + (k,))
    elif isinstance(obj, list):
        if not obj:
            yield path + ("[]",), obj
        for i, v in enumerate(obj):
            yield from leaves(v, path + (i,))
    else:
        yield path, obj


def mutate(trace, path):
    t = copy.deepcopy(trace)
    if path and path[-1] == "[]":
        return None
    cur = t
    for p in path[:-1]:
        cur = cur[p]
    v = cur[path[-1]]
    if isinstance(v, dict) and set(v) >= {"k", "n", "d"}:
        if v["k"] == "q":
            v["n"] = v["n"] + v["d"]                          # the value plus one
            v["zero"] = False
        else:
            cur[path[-1]] = {"k": "q", "n": 7, "d": 1, "close": True, "zero": False, "neg": False}
    elif isinstance(v, bool):
        cur[path[-1]] = not v
    elif isinstance(v, int):
        return None                                           # plain integers are structure (indices, sizes): not mutated
    elif isinstance(v, float):
        cur[path[-1]] = v + 1.0
    elif isinstance(v, str):
        cur[path[-1]] = v + "_x"
    else:
        return None
    return t


def pattern(path):
    return ".".join("*" if isinstance(p, int) else str(p) for p in path)


def main():
    cid = sys.argv[1]
    nsc = int(sys.argv[2]) if len(sys.argv) > 2 else 24
    maxmut = int(sys.argv[3]) if len(sys.argv) > 3 else 150
    mod = importlib.import_module(f"rv.drivers.{cid.lower()}")
    check = mod.CHECK
    scenarios = []
    for spec in check.model_runs("quick"):
        if spec.get("tlaps") or spec.get("expect_violation") or not spec.get("emit", True):
            continue
        res = tlc.run_tlc(spec["module"], spec.get("cfg"), workers=spec.get("workers", 1), constants=spec.get("constants"),
                          timeout=3600, heap=spec.get("heap", "3g"))
        scenarios += res.emitted
        if len(scenarios) > 2000:
            break
    if check.extra_scenarios is not None:
        scenarios += check.extra_scenarios("quick", 0)[:200]
    rng = random.Random(1)
    rng.shuffle(scenarios)
    traces = []
    for sc in scenarios[: nsc * 3]:
        trace, _ = mod.drive(sc)
        traces.append(trace)
    verdicts, _ = tlc.validate_traces(check.trace_module, traces)
    good = [t for t, v in zip(traces, verdicts) if v["verdict"] == "ACCEPT"][:nsc]
    print(f"{cid}: {len(good)} accepted traces used")
    muts, meta = [], []
    always_empty = defaultdict(lambda: [0, 0])
    for ti, tr in enumerate(good):
        ls = list(leaves(tr))
        for path, v in ls:
            if path and path[-1] == "[]":
                always_empty[pattern(path[:-1])][0] += 1
            for i, part in enumerate(path):
                if isinstance(part, int):               # some list on the way to this leaf is not empty
                    always_empty[pattern(path[:i])][1] += 1
        rng.shuffle(ls)
        for path, _ in ls[:maxmut]:
            m = mutate(tr, path)
            if m is not None:
                muts.append(m); meta.append(pattern(path))
    def robust(batch):
        """Validate; a corrupted trace may make TLC fail outright (index out of range ...): bisect, count that as noticed."""
        try:
            return tlc.validate_traces(check.trace_module, batch)[0]
        except tlc.MachineryError:
            if len(batch) == 1:
                return [{"verdict": "REJECT", "clause": "validator_error"}]
            h = len(batch) // 2
            return robust(batch[:h]) + robust(batch[h:])
    verdicts = robust(muts)
    stat = defaultdict(lambda: [0, 0])
    for pat, v in zip(meta, verdicts):
        stat[pat][0] += 1
        stat[pat][1] += v["verdict"] == "REJECT"
    print(f"{len(muts)} single-field corruptions validated")
    for pat in sorted(stat, key=lambda p: (stat[p][1] / stat[p][0], p)):
        n, r = stat[pat]
        flag = "  <-- never noticed" if r == 0 else ""
        print(f"  {pat:60s} {r:5d}/{n:<5d} rejected{flag}")
    for pat, (empty, nonempty) in sorted(always_empty.items()):
        if empty and not nonempty:
            print(f"  {pat:60s} always EMPTY in the sampled traces")
    return 0


if __name__ == "__main__":
    sys.exit(main())
