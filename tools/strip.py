"""Print python sources with docstrings stripped (reading aid)."""
import ast,sys
def strip(src):
    tree=ast.parse(src)
    for node in ast.walk(tree):
        if isinstance(node,(ast.FunctionDef,ast.ClassDef,ast.AsyncFunctionDef,ast.Module)):
            b=node.body
            if b and isinstance(b[0],ast.Expr) and isinstance(getattr(b[0],'value',None),ast.Constant) and isinstance(b[0].value.value,str):
                node.body = b[1:] or [ast.Pass()]
    return ast.unparse(tree)
for f in sys.argv[1:]:
    print('#####',f)
    print(strip(open(f).read()))
