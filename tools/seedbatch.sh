#!/bin/sh
# usage: seedbatch.sh "C02/A:C02 C02/B:C02 ..."   (seed:checks[,checks])
for item in $1; do
  seed=${item%%:*}; checks=$(echo ${item#*:} | tr , ' ')
  prop=$(echo $seed | cut -d/ -f1)
  /venv/bin/python /verif/tools/seedtest.py ${SEED_SRC:-/tmp/seed-out}/$seed $(echo $seed | tr / -) $prop $checks > ${SEED_SRC:-/tmp/seed-out}/$(echo $seed | tr / -).result 2>&1
  /venv/bin/python - "$seed" <<'PY'
import sys,json
import os
seed=sys.argv[1]; f=os.environ.get('SEED_SRC','/tmp/seed-out')+'/'+seed.replace('/','-')+'.result'
t=open(f).read()
try:
    d=json.loads(t[t.index('{\n'):]); print(d['seed'],'confirmed',d.get('confirmed'),{k:(v['exit'],v['clauses']) for k,v in d['checks'].items()})
except Exception as e: print(seed,'ERROR',t[-800:])
PY
done
