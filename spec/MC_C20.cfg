CONSTANTS
  K = 2
  RaiseAt = 0
  StopAt = 0
  ErrAt = 0
  MayKill = TRUE
  CheckStatus = TRUE
SPECIFICATION ESpec
INVARIANT DeathIsNeverSuccess
INVARIANT UserExceptionPropagates
INVARIANT StopCodePropagates
INVARIANT SuccessMeansComplete
PROPERTY EventuallyReturns
CHECK_DEADLOCK FALSE
