------------------------------ MODULE Filters ------------------------------
(* Realization filters of ropt (plugins/realization_filter/default.py).       *)
(*                                                                            *)
(* Members are 1..N, F is the set of failed members, key[i] an integer rank   *)
(* key.  CVaR weights are expressed in integer units of 1/(D*n), n = number   *)
(* of successful members, percentile p = k/D: a full weight 1/n is D units.   *)
(* Each filter is given twice: implementation-shaped (argsort, slice) and     *)
(* declaratively (the property); TLC checks the former refines the latter.    *)
EXTENDS Util

Succ(N, F) == {i \in 1..N : i \notin F}

\* ---------------------------------------------------------------- CVaR -----
\* larger key = worse.  Number of successful members strictly worse than i:
Worse(key, S, i) == Cardinality({j \in S : key[j] > key[i]})
\* stable tie-break by index, as numpy's argsort on -key does for equal keys
WorseOrd(key, S, i) == Cardinality({j \in S : key[j] > key[i] \/ (key[j] = key[i] /\ j < i)})

\* implementation-shaped: argsort descending, drop failed, floor(p*n) full
\* weights, the remainder on the next one.
CVaRImpl(N, key, F, k, D) ==
  LET S    == Succ(N, F)
      n    == Cardinality(S)
      full == (k * n) \div D
      rem  == k * n - full * D
  IN [i \in 1..N |-> IF i \in F THEN 0
                     ELSE IF WorseOrd(key, S, i) < full THEN D
                     ELSE IF WorseOrd(key, S, i) = full THEN rem ELSE 0]

\* declarative: the property (any order among tied members is admitted)
IsCVaR(N, u, key, F, k, D) ==
  LET S == Succ(N, F)
      n == Cardinality(S)
  IN /\ \A i \in F : u[i] = 0
     /\ \A i \in S : 0 <= u[i] /\ u[i] <= D
     /\ SumTo(u, N) = k * n
     /\ \A i, j \in S : key[i] > key[j] /\ u[j] > 0 => u[i] = D
     /\ Cardinality({i \in S : 0 < u[i] /\ u[i] < D}) <= 1

\* CVaR_p tail mean of the values val over the successful members, as the
\* rational  Sum(u*val) / Sum(u)  -- independent of tie-breaking.
TailMean(N, u, val) == <<SumTo([i \in 1..N |-> u[i] * val[i]], N), SumTo(u, N)>>

\* declarative tail mean: walk down the members from the worst, consuming mass
RECURSIVE TailWalk(_, _, _, _, _)
TailWalk(key, val, S, mass, D) ==            \* mass in units; returns sum of units*val
  IF mass = 0 \/ S = {} THEN 0
  ELSE LET w == CHOOSE i \in S : \A j \in S : key[j] <= key[i]
           t == Min2(mass, D)
       IN t * val[w] + TailWalk(key, val, S \ {w}, mass - t, D)

\* ---------------------------------------------------------------- Sort -----
\* ascending rank (0-based) of member i among the successful members
Below(val, S, i)    == Cardinality({j \in S : val[j] < val[i]})
BelowOrd(val, S, i) == Cardinality({j \in S : val[j] < val[i] \/ (val[j] = val[i] /\ j < i)})

\* implementation-shaped: argsort ascending, drop failed, slice [first, last]
SortImpl(N, val, cw, F, first, last) ==
  LET S == Succ(N, F)
  IN [i \in 1..N |-> IF i \in S /\ first <= BelowOrd(val, S, i) /\ BelowOrd(val, S, i) <= last
                     THEN cw[i] ELSE 0]

\* declarative: sel is a window selection iff from every group of tied
\* members exactly as many are selected as the group's rank interval
\* [Below, Below + size - 1] shares with the window [first, last].
Overlap(a, b, c, d) == Max2(0, Min2(b, d) - Max2(a, c) + 1)     \* |[a,b] /\ [c,d]|
IsSortSelection(N, sel, val, F, first, last) ==
  LET S == Succ(N, F)
  IN /\ sel \subseteq S
     /\ \A i \in S :
          LET G == {j \in S : val[j] = val[i]}
          IN Cardinality(G \cap sel) =
               Overlap(Below(val, S, i), Below(val, S, i) + Cardinality(G) - 1, first, last)
SortSupport(N, val, F, first, last) ==
  LET S == Succ(N, F)
  IN {i \in S : first <= BelowOrd(val, S, i) /\ BelowOrd(val, S, i) <= last}
=============================================================================
