CONSTANTS
  Class = "grad"
  Speculative = FALSE
  Split = FALSE
  CheckPoint = TRUE
  Points = {1, 2}
  L = 3
  Emit = TRUE
INIT Init
NEXT Next
INVARIANT ValueAtRequestedPoint
INVARIANT NeverTwice
INVARIANT NoGradientForGradientFree
INVARIANT SplitNeverBoth
INVARIANT SplitGradientAfterFunction
INVARIANT InvEmit
CHECK_DEADLOCK FALSE
