CONSTANTS
  L = 2
  RSet = {2, 3}
  PSet = {2}
  Emit = TRUE
INIT Init
NEXT Next
INVARIANT InvGradNeedsFunctionsAtPoint
INVARIANT InvComplete
INVARIANT InvEmit
CHECK_DEADLOCK FALSE
