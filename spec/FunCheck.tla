------------------------------ MODULE FunCheck ------------------------------
(* Judgement of one observed function evaluation against Ensemble!Eval; shared *)
(* by the trace validators of C01, C02, C03 and C14.                           *)
EXTENDS Ensemble

Scen(e) == [R |-> e.R, rw |-> e.rw, ow |-> e.ow, est |-> e.est, flt |-> e.flt, cols |-> e.cols,
            F |-> {r \in 1..e.R : e.failed[r]}, minsucc |-> e.minsucc]

RowOK(row, units, grid, R) ==
  /\ Len(row) = R
  /\ \A r \in 1..R : IF units[r] = 0 THEN row[r].k = "q" /\ row[r].zero /\ ~row[r].neg
                     ELSE ObsEq(row[r], <<units[r], grid>>)

CheckFun(e) ==
  LET s   == Scen(e)
      R   == s.R
      x   == Eval(s)
      fl  == StdFilters(R)
      val(f) == IF f <= 2 THEN e.obj[f] ELSE e.con[f - 2]
      row(f) == IF f <= 2 THEN (IF Len(e.orows) = 0 THEN <<>> ELSE e.orows[f])
                ELSE (IF Len(e.crows) = 0 THEN <<>> ELSE e.crows[f - 2])
      allMean == \A o \in 1..2 : s.est[o] = "mean" /\ x.res[o].st = "val"
  IN IF e.outcome \notin {"ok", "toofew", "nofunctions", "allnan"} THEN "internal_exception"
     ELSE IF e.outcome # "toofew" /\ (\E r \in 1..R : e.failedObs[r] # (r \in s.F)) THEN "failed_flags"
     ELSE IF x.st = "toofew" THEN (IF e.outcome \in {"toofew", "nofunctions"} THEN "ok" ELSE "too_few_not_signalled")
     ELSE IF x.st = "nofunctions" THEN (IF e.outcome = "nofunctions" THEN "ok" ELSE "functions_reported_below_min_success")
     ELSE IF x.st = "allnan" THEN "ok"
     ELSE IF e.outcome = "allnan" /\ (\A f \in 1..3 : x.res[f].st = "dontcare") THEN "ok"
     ELSE IF e.outcome # "ok" THEN "functions_not_reported"
     ELSE IF \E f \in 1..3 : x.res[f].st = "val" /\ s.est[f] = "mean" /\ ~ObsEq(val(f), x.res[f].q) THEN "mean_value"
     ELSE IF \E f \in 1..3 : x.res[f].st = "val" /\ s.est[f] = "std" /\ ~(ObsEq(val(f), x.res[f].q) /\ ~e.stdneg[f]) THEN "stddev_value"
     ELSE IF allMean /\ ~ObsEq(e.wobj, WeightedObjective(s.ow, <<x.res[1].q, x.res[2].q>>)) THEN "weighted_objective"
     ELSE IF \E f \in 1..3 : s.flt[f] = -1 /\ ~(Len(row(f)) = 0 \/ RowOK(row(f), s.rw, SumTo(s.rw, R), R)) THEN "unfiltered_row_not_configured_weights"
     ELSE IF \E f \in 1..3 : s.flt[f] # -1 /\ ~RowOK(row(f), x.units[f], FilterGrid(fl[s.flt[f] + 1], R, s.rw, s.F), R) THEN "filtered_row_not_filter_weights"
     ELSE "ok"

\* The same scenario as a problem with its FIRST objective only (one objective, no constraint, an explicit weight other
\* than one): the objective value is unchanged and the single weight normalises to one.
\* (events with shift # 0: the evaluator returned every value plus 2^20 - a deviation is invariant under such a shift, so the
\*  expectation is that of the unshifted column; only deviation scenarios are replayed that way)
CheckOne(e) ==
  LET s == Scen(e)
      x == Eval(s)
  IN IF e.outcome \notin {"ok", "toofew", "nofunctions", "allnan"} THEN "internal_exception"
     ELSE IF x.st # "ok" \/ x.res[1].st # "val" THEN "ok"
     ELSE IF e.outcome # "ok" THEN "functions_not_reported"
     ELSE IF s.est[1] = "mean" /\ ~ObsEq(e.obj[1], x.res[1].q) THEN "mean_value"
     ELSE IF s.est[1] = "std" /\ ~(ObsEq(e.obj[1], x.res[1].q) /\ ~e.stdneg[1]) THEN "stddev_value"
     ELSE IF s.est[1] = "mean" /\ ~ObsEq(e.wobj, x.res[1].q) THEN "weighted_objective"
     ELSE "ok"
=============================================================================
