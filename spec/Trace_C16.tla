----------------------------- MODULE Trace_C16 -----------------------------
(* Total trace validator for C16: one trace = one process executing a schedule; *)
(* each "Run" event carries the configuration id, the gradient seed and the     *)
(* interned SHA-256 of the complete recorded run (evaluator requests, values,   *)
(* results, exit code) and of its perturbed vectors.                            *)
EXTENDS Util, TLC, Json, IOUtils

Traces == JsonDeserialize(IOEnv.TRACE_FILE)
VARIABLES tid, l, verdict, runs

Check(e, rs) ==
  IF e.ev # "Run" THEN "ok"
  ELSE IF e.outcome # "ok" THEN "internal_exception"
  ELSE IF \E i \in 1..Len(rs) : rs[i].cfg = e.cfg /\ rs[i].seed = e.seed /\ rs[i].plug = e.plug /\ rs[i].trace # e.trace THEN "same_configuration_and_seed_different_run"
  ELSE IF e.haspert /\ (\E i \in 1..Len(rs) : rs[i].cfg = e.cfg /\ rs[i].seed # e.seed /\ rs[i].plug = e.plug /\ rs[i].haspert /\ rs[i].pert = e.pert) THEN "seed_does_not_change_perturbations"
  ELSE "ok"

Init == tid \in 1..Len(Traces) /\ l = 1 /\ verdict = "ok" /\ runs = <<>>
Next == /\ verdict = "ok" /\ l <= Len(Traces[tid])
        /\ LET e == Traces[tid][l] IN
             /\ verdict' = Check(e, runs)
             /\ runs' = IF e.ev = "Run" THEN Append(runs, e) ELSE runs
        /\ l' = IF verdict' = "ok" THEN l + 1 ELSE l
        /\ UNCHANGED tid
Report == (verdict # "ok" \/ l = Len(Traces[tid]) + 1) =>
            PrintT(<<IF verdict = "ok" THEN "ACCEPT" ELSE "REJECT", tid, l, verdict>>)
=============================================================================
