------------------------------ MODULE MC_Basic ------------------------------
(* Bounded instance of Basic.tla: every script over a small alphabet x abort  *)
(* point x budget x callback sets x one to three run() calls.                 *)
EXTENDS Basic, TLC, Json

CONSTANTS MaxK, Objs, MaxRuns, MaxCb, MaxFun, Emit

Items == [kind : {"F", "G", "FG"}, obj : Objs, feas : BOOLEAN, fail : BOOLEAN]
Scripts == UNION {[1..n -> Items] : n \in 0..MaxK}

MCInit ==
  /\ \E script \in Scripts : \E runs \in 1..MaxRuns : \E nA \in 0..1 : \E nR \in 0..MaxCb : \E lateR \in 0..1 :
     \E maxfun \in 0..MaxFun : \E abortAt \in 0..(MaxK * MaxRuns + 1) : \E redir \in BOOLEAN : \E tolnone \in BOOLEAN :
       /\ (nA = 0 => abortAt = 0)
       /\ ~(redir /\ tolnone)                 \* two orthogonal switches, varied one at a time
       /\ (runs = 1 => lateR = 0)
       /\ cfg = [script |-> script, abortAt |-> abortAt, maxfun |-> maxfun, runs |-> runs, nA |-> nA, nR |-> nR, lateR |-> lateR, redir |-> redir, tolnone |-> tolnone]
  /\ s = S0 /\ log = <<>>

MCSpec == MCInit /\ [][BNext]_bvars /\ WF_bvars(BNext)
Terminates == <>(s.phase = "end")

\* the declarative properties speak about the log, which only grows: judged on complete behaviours
AtEnd(Q) == s.phase = "end" => Q
E_ExactlyOncePerEvaluation == AtEnd(ExactlyOncePerEvaluation)
E_AbortIsFinal == AtEnd(AbortIsFinal)
E_AbortConsulted == AtEnd(AbortConsulted)
E_ReportsTrackedBest == AtEnd(ReportsTrackedBest)
E_BudgetRespected == AtEnd(BudgetRespected)
E_ExitCodes == AtEnd(ExitCodes)
E_BudgetStopsOnlyWhenUsedUp == AtEnd(BudgetStopsOnlyWhenUsedUp)

InvEmit == s.phase = "end" /\ Emit => PrintT(ToJson([cfg |-> cfg, log |-> log]))
=============================================================================
