CONSTANTS
  NH = 2
  NO = 2
  KSet = {1, 2}
  KinSet = {1}
  MaxEm = 14
  MaxCall = 4
  Kinds = {"opt", "eval", "seq", "nested", "renest"}
  Emit = TRUE
SPECIFICATION MCSpec
INVARIANT WellBracketed
INVARIANT DeliveryOrder
INVARIANT AbortLatches
INVARIANT NestedAbortReachesParent
INVARIANT InvEmit
PROPERTY Terminates
CHECK_DEADLOCK FALSE
