------------------------------ MODULE MC_C15 ------------------------------
(* Bounded instance of Plan.tla for C15 (and the exit-code half of C14):     *)
(* every plan shape x run length x failing evaluation x budget x abort point  *)
(* (every delivery of every emission, every evaluator call).                  *)
EXTENDS Plan, TLC, Json

CONSTANTS KSet, KinSet, MaxEm, MaxCall, Kinds, Emit

MCInit ==
  /\ \E kind \in Kinds : \E K \in KSet : \E Kin \in KinSet : \E failAt \in 0..2 : \E maxfun \in {0, 1} :
     \E ab \in ({<<0, 0, 0>>} \cup {<<e, r, 0>> : e \in 1..MaxEm, r \in 1..(2 * NH + NO)} \cup {<<0, 0, c>> : c \in 1..MaxCall}) :
       /\ (kind \notin {"nested", "renest"} => Kin = 1)
       /\ (kind = "eval" => K = 1 /\ maxfun = 0)
       /\ (kind \in {"nested", "renest"} => failAt = 0)
       /\ (kind = "renest" => K = 1 /\ maxfun = 0)
       /\ (ab[2] > NH + NO => kind \in {"nested", "renest"})
       /\ \E twoctx \in BOOLEAN : \E redir \in BOOLEAN :
            \* twoctx: the inner plan lives on its own OptimizerContext (observers on the root one)
            \* redir: optimizer.stdout is configured (output redirection is active while the backend runs); the event
            \*        protocol, the exit codes and the abort latch do not depend on it
            /\ (twoctx => kind = "nested") /\ (redir => kind \notin {"eval", "renest"})
            /\ cfg = [kind |-> kind, K |-> K, Kin |-> Kin, failAt |-> failAt, maxfun |-> maxfun,
                      abEm |-> ab[1], abRc |-> ab[2], abCall |-> ab[3], twoctx |-> twoctx, redir |-> redir]
       /\ m = NewStep(1, 1, IF kind = "eval" THEN "eval" ELSE "opt", K, kind \in {"nested", "renest"})
  /\ stack = <<>> /\ stream = <<>> /\ emc = 0 /\ callc = 0
  /\ aborted = <<FALSE, FALSE, FALSE>> /\ rets = <<>> /\ refused = <<>>

MCSpec == MCInit /\ [][Next]_vars /\ WF_vars(Next)

InvEmit == m.st = "end" /\ Emit =>
  PrintT(ToJson([cfg |-> cfg, rets |-> rets, aborted |-> aborted, refused |-> Len(refused), emissions |-> emc, calls |-> callc]))
=============================================================================
