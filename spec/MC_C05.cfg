CONSTANTS
  NMax = 4
  Family = "perm"
  Emit = TRUE
INIT Init
NEXT Next
INVARIANT InvSort
INVARIANT InvUnique
INVARIANT InvFailedNeverRanked
INVARIANT InvEmit
CHECK_DEADLOCK FALSE
