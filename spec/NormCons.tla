------------------------------ MODULE NormCons ------------------------------
(* The problem handed to SciPy (plugins/optimizer/scipy.py, utils.py):         *)
(* constraint normalisation, variable bounds, masked linear constraints.       *)
(* A constraint is [lb, ub] with |b| >= INF infinite; its kind is              *)
(*   "eq" (lb = ub), "lower", "upper", "two" (two-sided), "none" (unbounded).  *)
EXTENDS Util

INF == 1000000
IsInf(b) == b >= INF \/ b <= -INF
Kind(c) == IF c.lb = c.ub THEN "eq"
           ELSE IF IsInf(c.lb) /\ IsInf(c.ub) THEN "none"
           ELSE IF IsInf(c.ub) THEN "lower" ELSE IF IsInf(c.lb) THEN "upper" ELSE "two"
Bounds(kind) == CASE kind = "eq" -> [lb |-> 1, ub |-> 1] [] kind = "lower" -> [lb |-> 0, ub |-> INF]
                  [] kind = "upper" -> [lb |-> -INF, ub |-> 2] [] kind = "two" -> [lb |-> -1, ub |-> 2]
                  [] kind = "none" -> [lb |-> -INF, ub |-> INF]
Sat(v, c) == (IsInf(c.lb) \/ c.lb <= v) /\ (IsInf(c.ub) \/ v <= c.ub)

\* implementation-shaped: rows [idx, rhs, flip, eq]; value of a row = (flip ? -1 : 1) * (v[idx] - rhs)
RECURSIVE RowsFrom(_, _)
RowsFrom(cs, i) ==
  IF i > Len(cs) THEN <<>>
  ELSE LET c == cs[i]
           here == IF c.lb = c.ub THEN <<[idx |-> i, rhs |-> c.lb, flip |-> FALSE, eq |-> TRUE]>>
                   ELSE (IF IsInf(c.lb) THEN <<>> ELSE <<[idx |-> i, rhs |-> c.lb, flip |-> FALSE, eq |-> FALSE]>>)
                        \o (IF IsInf(c.ub) THEN <<>> ELSE <<[idx |-> i, rhs |-> c.ub, flip |-> TRUE, eq |-> FALSE]>>)
       IN here \o RowsFrom(cs, i + 1)
Rows(cs) == RowsFrom(cs, 1)
RowValue(row, vals) == (IF row.flip THEN -1 ELSE 1) * (vals[row.idx] - row.rhs)
RowOK(row, vals) == IF row.eq THEN RowValue(row, vals) = 0 ELSE RowValue(row, vals) >= 0
\* the property: a value vector satisfies the configured constraints iff it satisfies every normalised row
Feasible(cs, vals) == \A i \in 1..Len(cs) : Sat(vals[i], cs[i])
RowsFeasible(cs, vals) == \A j \in 1..Len(Rows(cs)) : RowOK(Rows(cs)[j], vals)
NumRows(cs) == Len(Rows(cs))
=============================================================================
