INIT Init
NEXT Next
INVARIANT Report
CHECK_DEADLOCK FALSE
