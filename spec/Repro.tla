-------------------------------- MODULE Repro --------------------------------
(* Reproducibility (ensemble_evaluator/_ensemble_evaluator.py: default_rng(seed)*)
(* per evaluator, samplers drawing from it; plugins/_manager.py).               *)
(* A process executes a schedule of actions; a target run must depend on        *)
(* (configuration, seed) only - never on the global NumPy generator, on other   *)
(* optimizations executed before, or on re-used plug-in managers / contexts.    *)
EXTENDS Util

CONSTANTS L, UsesGlobal, UsesHistory        \* as-is switches: a run reading the global generator / left-over state
VARIABLES g, ran, reuse, hist, runs
rvars == <<g, ran, reuse, hist, runs>>

Cfgs == 1..2
Seeds == 1..2
\* what a run produces: intended = a function of (cfg, seed); the switches add forbidden dependencies
TraceOf(c, s) == <<c, s, IF UsesGlobal THEN g ELSE 0, IF UsesHistory THEN ran ELSE 0>>
PertOf(c, s) == <<s, IF UsesGlobal THEN g ELSE 0>>

Init == g = 0 /\ ran = 0 /\ reuse = FALSE /\ hist = <<>> /\ runs = <<>>
Reseed(s)  == g' = s /\ hist' = Append(hist, [op |-> "reseed", a |-> s, b |-> 0]) /\ UNCHANGED <<ran, reuse, runs>>
Draw       == g' = (g + 1) % 4 /\ hist' = Append(hist, [op |-> "draw", a |-> 0, b |-> 0]) /\ UNCHANGED <<ran, reuse, runs>>
Other(c)   == ran' = ran + 1 /\ g' = (g + c) % 4      \* another optimization runs (and may use the global generator itself)
              /\ hist' = Append(hist, [op |-> "other", a |-> c, b |-> 0]) /\ UNCHANGED <<reuse, runs>>
Toggle     == reuse' = ~reuse /\ hist' = Append(hist, [op |-> "reuse", a |-> 0, b |-> 0]) /\ UNCHANGED <<g, ran, runs>>
Target(c, s) == /\ runs' = Append(runs, [cfg |-> c, seed |-> s, trace |-> TraceOf(c, s), pert |-> PertOf(c, s)])
                /\ ran' = ran + 1
                /\ hist' = Append(hist, [op |-> "target", a |-> c, b |-> s]) /\ UNCHANGED <<g, reuse>>
Next == /\ Len(hist) < L
        /\ \/ \E s \in Seeds : Reseed(s)
           \/ Draw
           \/ \E c \in Cfgs : Other(c)
           \/ Toggle
           \/ \E c \in Cfgs, s \in Seeds : Target(c, s)

Reproducible == \A i, j \in 1..Len(runs) : (runs[i].cfg = runs[j].cfg /\ runs[i].seed = runs[j].seed) => runs[i].trace = runs[j].trace
SeedMatters  == \A i, j \in 1..Len(runs) : (runs[i].cfg = runs[j].cfg /\ runs[i].seed # runs[j].seed) => runs[i].pert # runs[j].pert
=============================================================================
