-------------------------------- MODULE Repro --------------------------------
(* Reproducibility (ensemble_evaluator/_ensemble_evaluator.py: default_rng(seed)*)
(* per evaluator, samplers drawing from it; plugins/_manager.py).               *)
(* A process executes a schedule of actions; a target run must depend on        *)
(* (configuration, seed) only - never on the global NumPy generator, on other   *)
(* optimizations executed before, or on re-used plug-in managers / contexts.    *)
EXTENDS Util

CONSTANTS L, UsesGlobal, UsesHistory,       \* as-is switches: a run reading the global generator / left-over state
          UsesProcess,                     \* ... / something that differs between interpreter processes (hash ordering)
          UsesConcurrent                   \* ... / state of another optimization that is alive at the same time
VARIABLES g, ran, reuse, hist, runs, plugged, proc, nest
rvars == <<g, ran, reuse, hist, runs, plugged, proc, nest>>

Cfgs == 1..2
Seeds == 1..2
\* what a run produces: intended = a function of (cfg, seed); the switches add forbidden dependencies
\* plugged: a prioritised plug-in for the configured method names has been registered (on the re-used manager and on every
\* manager created afterwards) - a legitimate input of a run, like the configuration
\* proc: the interpreter process the run executes in (another process: another string-hash salt, another address space)
\* nest: another optimization (same configuration, another seed) is started from inside an evaluator call of the run and
\* completes there - two evaluators, and their samplers, are alive at the same time
TraceOf(c, s) == <<c, s, plugged, IF UsesGlobal THEN g ELSE 0, IF UsesHistory THEN ran ELSE 0, IF UsesProcess THEN proc ELSE 0,
                   IF UsesConcurrent THEN nest ELSE FALSE>>
PertOf(c, s) == <<s, plugged, IF UsesGlobal THEN g ELSE 0>>

Init == g = 0 /\ ran = 0 /\ reuse = FALSE /\ hist = <<>> /\ runs = <<>> /\ plugged = FALSE /\ proc = 1 /\ nest = FALSE
Reseed(s)  == g' = s /\ hist' = Append(hist, [op |-> "reseed", a |-> s, b |-> 0]) /\ UNCHANGED <<ran, reuse, runs, plugged, proc, nest>>
Draw       == g' = (g + 1) % 4 /\ hist' = Append(hist, [op |-> "draw", a |-> 0, b |-> 0]) /\ UNCHANGED <<ran, reuse, runs, plugged, proc, nest>>
Other(c)   == ran' = ran + 1 /\ g' = (g + c) % 4      \* another optimization runs (and may use the global generator itself)
              /\ hist' = Append(hist, [op |-> "other", a |-> c, b |-> 0]) /\ UNCHANGED <<reuse, runs, plugged, proc, nest>>
Toggle     == reuse' = ~reuse /\ hist' = Append(hist, [op |-> "reuse", a |-> 0, b |-> 0]) /\ UNCHANGED <<g, ran, runs, plugged, proc, nest>>
Plug       == ~plugged /\ plugged' = TRUE /\ hist' = Append(hist, [op |-> "plug", a |-> 0, b |-> 0]) /\ UNCHANGED <<g, ran, reuse, runs, proc, nest>>
\* the following target runs execute in another interpreter process
Process    == proc' = 3 - proc /\ hist' = Append(hist, [op |-> "proc", a |-> 0, b |-> 0]) /\ UNCHANGED <<g, ran, reuse, runs, plugged, nest>>
\* the following target runs have another optimization running inside them
Nest       == nest' = ~nest /\ hist' = Append(hist, [op |-> "nest", a |-> 0, b |-> 0]) /\ UNCHANGED <<g, ran, reuse, runs, plugged, proc>>
Target(c, s) == /\ runs' = Append(runs, [cfg |-> c, seed |-> s, plug |-> plugged, trace |-> TraceOf(c, s), pert |-> PertOf(c, s)])
                /\ ran' = ran + (IF nest THEN 2 ELSE 1)
                /\ hist' = Append(hist, [op |-> "target", a |-> c, b |-> s]) /\ UNCHANGED <<g, reuse, plugged, proc, nest>>
Next == /\ Len(hist) < L
        /\ \/ \E s \in Seeds : Reseed(s)
           \/ Draw
           \/ \E c \in Cfgs : Other(c)
           \/ Toggle
           \/ Plug
           \/ Process
           \/ Nest
           \/ \E c \in Cfgs, s \in Seeds : Target(c, s)

Reproducible == \A i, j \in 1..Len(runs) : (runs[i].cfg = runs[j].cfg /\ runs[i].seed = runs[j].seed /\ runs[i].plug = runs[j].plug) => runs[i].trace = runs[j].trace
SeedMatters  == \A i, j \in 1..Len(runs) : (runs[i].cfg = runs[j].cfg /\ runs[i].seed # runs[j].seed /\ runs[i].plug = runs[j].plug) => runs[i].pert # runs[j].pert
=============================================================================
