------------------------------ MODULE MC_C05 ------------------------------
(* Bounded instance for C05 (sort filter window).                           *)
(*  family "perm":  every n <= NMax, ordering, failure mask, window          *)
(*                  (including windows one beyond the ensemble and reversed  *)
(*                  ones, which must be rejected), configured-weight pattern *)
(*  family "multi": two-objective sort keys with ties                        *)
(*  family "map":   filter-index maps over 2 objectives + 2 constraints      *)
EXTENDS Filters, TLC, Json

CONSTANTS NMax, Family, Emit
VARIABLES sc, sel, phase

CW(n, pat) == CASE pat = 1 -> [i \in 1..n |-> 1]
                [] pat = 2 -> [i \in 1..n |-> i]
                [] pat = 3 -> [i \in 1..n |-> IF i = 1 THEN 0 ELSE 2]

InitPerm == \E n \in 1..NMax : \E p \in Perms(n) : \E F \in SUBSET (1..n) :
            \E first \in 0..n : \E last \in 0..n : \E pat \in 1..(IF n = 1 THEN 2 ELSE 3) :
              /\ (first > last => first = last + 1)          \* one reversed window per first
              /\ sc = [n |-> n, val |-> [i \in 1..n |-> p[i] - 2], o2 |-> [i \in 1..n |-> 0], F |-> F,
                       first |-> first, last |-> last, cw |-> CW(n, pat), multi |-> FALSE,
                       map |-> <<0, -1, -1, -1>>, first2 |-> 0, last2 |-> 0]
InitMulti == \E n \in 2..NMax : \E a \in [1..n -> 0..1] : \E b \in [1..n -> 0..1] : \E F \in SUBSET (1..n) :
             \E first \in 0..(n-1) : \E last \in first..(n-1) :
               sc = [n |-> n, val |-> a, o2 |-> b, F |-> F, first |-> first, last |-> last,
                     cw |-> CW(n, 2), multi |-> TRUE, map |-> <<0, 0, -1, -1>>, first2 |-> 0, last2 |-> 0]
InitMap == \E p \in Perms(3) : \E F \in SUBSET (1..3) : \E m \in [1..4 -> {-1, 0, 1}] :
           \E w1 \in {<<0, 0>>, <<1, 2>>} : \E w2 \in {<<0, 1>>, <<2, 2>>} : \E pat \in {2, 3} :
               \* (a zero configured weight where only constraints are filtered: the realization must still be evaluated)
               /\ (pat = 3 => m[1] = -1 /\ m[2] = -1)
               /\ sc = [n |-> 3, val |-> [i \in 1..3 |-> p[i] - 2], o2 |-> [i \in 1..3 |-> 0], F |-> F,
                     first |-> w1[1], last |-> w1[2], cw |-> CW(3, pat), multi |-> FALSE, map |-> m,
                     first2 |-> w2[1], last2 |-> w2[2]]

Init == /\ CASE Family = "perm" -> InitPerm [] Family = "multi" -> InitMulti [] Family = "map" -> InitMap
        /\ sel = {} /\ phase = "init"

Key == [i \in 1..sc.n |-> IF sc.multi THEN sc.val[i] + 2 * sc.o2[i] ELSE sc.val[i]]
Valid == sc.first <= sc.last /\ sc.last < sc.n

Compute == /\ phase = "init"
           /\ sel' = IF Valid THEN SortSupport(sc.n, Key, sc.F, sc.first, sc.last) ELSE {}
           /\ phase' = "done" /\ UNCHANGED sc
Next == Compute

InvSort == phase = "done" /\ Valid => IsSortSelection(sc.n, sel, Key, sc.F, sc.first, sc.last)
\* with distinct keys the admissible selection is unique
InvUnique == phase = "done" /\ Valid /\ (\A i, j \in 1..sc.n : i # j => Key[i] # Key[j]) =>
               \A s2 \in SUBSET Succ(sc.n, sc.F) : IsSortSelection(sc.n, s2, Key, sc.F, sc.first, sc.last) => s2 = sel
InvFailedNeverRanked == phase = "done" => sel \cap sc.F = {}
InvEmit == phase = "done" /\ Emit =>
             PrintT(ToJson([n |-> sc.n, val |-> sc.val, o2 |-> sc.o2, failed |-> [i \in 1..sc.n |-> i \in sc.F],
                            first |-> sc.first, last |-> sc.last, cw |-> sc.cw, multi |-> sc.multi,
                            map |-> sc.map, first2 |-> sc.first2, last2 |-> sc.last2, fam |-> Family]))
=============================================================================
