--------------------------- MODULE ConstraintInfo ---------------------------
(* Constraint differences and violations (results/_constraint_info.py).        *)
(* Values are integers; a bound b with |b| >= INF is infinite.  A difference    *)
(* is an extended integer: [inf |-> -1|0|1, v |-> integer].                     *)
EXTENDS Util

INF == 1000000
IsInf(b) == b >= INF \/ b <= -INF
Ext(v)   == [inf |-> 0, v |-> v]
\* value - bound
Diff(v, b) == IF b >= INF THEN [inf |-> -1, v |-> 0] ELSE IF b <= -INF THEN [inf |-> 1, v |-> 0] ELSE Ext(v - b)
LowerDiff(v, lb) == Diff(v, lb)
UpperDiff(v, ub) == Diff(v, ub)
\* max(lb - v, v - ub, 0): finite whenever lb <= ub (an infinite bound is never violated)
Violation(v, lb, ub) == Max2(Max2(IF IsInf(lb) THEN 0 ELSE lb - v, IF IsInf(ub) THEN 0 ELSE v - ub), 0)
\* declarative reading used as a cross-check: distance to the interval [lb, ub]
Dist(v, lb, ub) == IF ~IsInf(lb) /\ v < lb THEN lb - v ELSE IF ~IsInf(ub) /\ v > ub THEN v - ub ELSE 0
Outside(v, lb, ub) == (~IsInf(lb) /\ v < lb) \/ (~IsInf(ub) /\ v > ub)

\* observed extended number o (harness encoding) equals extended integer d
ObsExt(o, d) == IF d.inf = 0 THEN ObsEqInt(o, d.v) ELSE o.k = "inf" /\ o.n = d.inf
=============================================================================
