---------------------------- MODULE Trace_Basic ----------------------------
(* Trace validator for Basic.tla: the calls a user observes on a real          *)
(* BasicOptimizer (abort callback, evaluator, results callback, and after each *)
(* run() the exit code / tracked best / variables) are replayed against the    *)
(* actions of Basic.tla.  StartRun / Budget / Suspend / Restore / Track /      *)
(* AfterEval are silent; Request / ScriptEnd / CallAbortCb / Evaluate /        *)
(* CallResCb / Finish each consume one logged event, which also records where  *)
(* a write to standard output went at that moment.  Total: a mismatch names    *)
(* what the model expected.                                                    *)
EXTENDS Basic, TLC, Json, IOUtils

Traces == JsonDeserialize(IOEnv.TRACE_FILE)
VARIABLES tid, l, verdict
tvars == <<tid, l, verdict>>
Tr == Traces[tid]

Script(e) == [i \in 1..Len(e.script) |-> [kind |-> e.script[i].kind, obj |-> e.script[i].obj, feas |-> e.script[i].feas, fail |-> e.script[i].fail]]
TInit == /\ tid \in 1..Len(Traces) /\ l = 2 /\ verdict = "ok"
         /\ cfg = [script |-> Script(Tr[1]), abortAt |-> Tr[1].abortAt, maxfun |-> Tr[1].maxfun, runs |-> Tr[1].runs,
                   nA |-> Tr[1].nA, nR |-> Tr[1].nR, lateR |-> Tr[1].lateR, redir |-> Tr[1].redir, tolnone |-> Tr[1].tolnone]
         /\ s = S0 /\ log = <<>>

Stop(v) == verdict' = v /\ UNCHANGED <<tid, l>> /\ UNCHANGED bvars
Silent == /\ verdict = "ok" /\ (StartRun \/ Budget \/ Suspend \/ Restore \/ Track \/ AfterEval) /\ UNCHANGED tvars
\* where the output written at the event went
Routed(e) == IF e.dest = s.fd THEN "ok"
             ELSE IF e.dest = "lost" THEN "output_lost_" \o e.ev
             ELSE IF s.fd = "orig" THEN "output_of_" \o e.ev \o "_redirected_to_the_optimizer_file"
             ELSE "optimizer_output_not_redirected"

\* what the observed event is called when the model expected something else
Got(e) == CASE e.ev = "AbortCb" -> "abort_callback_called"
            [] e.ev = "Eval" -> "evaluator_called"
            [] e.ev = "ResCb" -> "results_callback_called"
            [] e.ev = "Done" -> "run_returned"
            [] e.ev = "Opt" -> "optimizer_continued"
            [] OTHER -> "exception_" \o e.s

TAbortCb ==
  /\ verdict = "ok" /\ ENABLED CallAbortCb
  /\ IF l > Len(Tr) THEN Stop("trace_ends_where_abort_callback_expected")
     ELSE LET e == Tr[l] IN
          IF e.ev # "AbortCb" THEN Stop("abort_callback_not_consulted_at_START_EVALUATION_but_" \o Got(e))
          ELSE IF e.n # s.acalls + 1 THEN Stop("abort_callback_call_count")
          ELSE IF Routed(e) # "ok" THEN Stop(Routed(e))
          ELSE CallAbortCb /\ l' = l + 1 /\ UNCHANGED <<tid, verdict>>
TOpt ==
  /\ verdict = "ok" /\ (ENABLED Request \/ ENABLED ScriptEnd)
  /\ IF l > Len(Tr) THEN Stop("trace_ends_where_optimizer_request_expected")
     ELSE LET e == Tr[l] IN
          IF e.ev # "Opt" THEN Stop("optimizer_request_expected_but_" \o Got(e))
          ELSE IF e.n # s.k THEN Stop("optimizer_request_number")
          ELSE IF Routed(e) # "ok" THEN Stop(Routed(e))
          ELSE (Request \/ ScriptEnd) /\ l' = l + 1 /\ UNCHANGED <<tid, verdict>>
TEvaluate ==
  /\ verdict = "ok" /\ ENABLED Evaluate
  /\ IF l > Len(Tr) THEN Stop("trace_ends_where_evaluator_call_expected")
     ELSE LET e == Tr[l] IN
          IF e.ev = "AbortCb" THEN Stop("abort_callback_called_more_than_once_per_START_EVALUATION")
          ELSE IF e.ev # "Eval" THEN Stop("evaluator_call_expected_but_" \o Got(e))
          ELSE IF e.obj # Item.obj THEN Stop("evaluator_called_at_another_point")
          ELSE IF e.n # Rows(Item) THEN Stop("evaluator_rows")
          ELSE IF Routed(e) # "ok" THEN Stop(Routed(e))
          ELSE Evaluate /\ l' = l + 1 /\ UNCHANGED <<tid, verdict>>
TResCb ==
  /\ verdict = "ok" /\ ENABLED CallResCb
  /\ IF l > Len(Tr) THEN Stop("trace_ends_where_results_callback_expected")
     ELSE LET e == Tr[l] IN
          IF e.ev # "ResCb" THEN Stop("results_callback_not_called_for_an_evaluation_but_" \o Got(e))
          ELSE IF e.kinds # Kinds(Item) THEN Stop("results_callback_result_kinds")
          ELSE IF e.obj # SeenObj(Item) THEN Stop("results_callback_objective")
          ELSE IF e.n # 0 THEN Stop("results_callback_transformed_results_without_transforms")
          ELSE IF Routed(e) # "ok" THEN Stop(Routed(e))
          ELSE CallResCb /\ l' = l + 1 /\ UNCHANGED <<tid, verdict>>
\* the model moves on after the deliveries: one more ResCb here is a duplicate delivery
TNoMoreResCb ==
  /\ verdict = "ok" /\ s.phase = "deliver" /\ s.di = s.regR /\ l <= Len(Tr) /\ Tr[l].ev = "ResCb"
  /\ Stop("results_callback_called_more_than_once_per_evaluation")
TFinish ==
  /\ verdict = "ok" /\ ENABLED Finish
  /\ IF l > Len(Tr) THEN Stop("trace_ends_where_run_return_expected")
     ELSE LET e == Tr[l] IN
          IF e.ev # "Done" THEN Stop("run_return_expected_after_" \o s.exit \o "_but_" \o Got(e))
          ELSE IF e.s # s.exit THEN Stop("basic_exit_code_expected_" \o s.exit \o "_got_" \o e.s)
          \* (named separately: the reported result is one whose violation exceeds the tolerance - no feasible item has its objective)
          ELSE IF e.obj # s.best /\ ~cfg.tolnone /\ (\E i \in 1..Len(cfg.script) : cfg.script[i].obj = e.obj /\ ~cfg.script[i].feas)
                  /\ ~(\E i \in 1..Len(cfg.script) : cfg.script[i].obj = e.obj /\ cfg.script[i].feas)
               THEN Stop("basic_optimizer_reports_an_infeasible_result")
          ELSE IF e.obj # s.best THEN Stop("basic_optimizer_does_not_report_the_tracked_best")
          ELSE IF e.vars # 1 THEN Stop("basic_variables_are_not_those_of_the_reported_result")
          ELSE IF Routed(e) # "ok" THEN Stop("output_still_redirected_after_the_run")
          ELSE IF e.open # 0 THEN Stop("output_descriptors_left_open_by_the_run")
          ELSE Finish /\ l' = l + 1 /\ UNCHANGED <<tid, verdict>>
TEnd ==
  /\ verdict = "ok" /\ s.phase = "end"
  /\ IF l <= Len(Tr) THEN Stop("events_after_the_last_run_" \o Got(Tr[l]))
     ELSE s' = [s EXCEPT !.phase = "checked"] /\ UNCHANGED <<cfg, log, tvars>>

TNext == TNoMoreResCb \/ (~ENABLED TNoMoreResCb /\ (Silent \/ TOpt \/ TAbortCb \/ TEvaluate \/ TResCb \/ TFinish \/ TEnd))
Report == (verdict # "ok" \/ s.phase = "checked") =>
            PrintT(<<IF verdict = "ok" THEN "ACCEPT" ELSE "REJECT", tid, l, verdict>>)
Safe == verdict = "ok" => ExactlyOncePerEvaluation /\ AbortIsFinal /\ ReportsTrackedBest /\ BudgetRespected /\ ExitCodes /\ OutputRouting
=============================================================================
