----------------------------- MODULE Trace_C09 -----------------------------
(* Trace validator for C09: the monitor keeps FixedVars!fixed across the       *)
(* events of one optimizer step.                                               *)
(*   Start   {x0, mask, seenlen}   what the back-end was started with          *)
(*   Req     {xf, nested, rows, unpert, resvars, pertvars, gradzero, glen}     *)
(*   Rows    {rows}                (recorded real algorithms: rows only)       *)
EXTENDS FixedVars, TLC, Json, IOUtils

Traces == JsonDeserialize(IOEnv.TRACE_FILE)
VARIABLES tid, l, verdict, fixed, mask

IntRow(r) == [v \in 1..Len(r) |-> IF r[v].k = "q" /\ r[v].close /\ r[v].d = 1 THEN r[v].n ELSE -999999]
RowAgrees(r, fx, mk) == \A v \in 1..Len(mk) : ~mk[v] => ObsEqInt(r[v], fx[v])

CheckReq(e, fx, mk) ==
  LET fx2 == IF Len(e.nested) > 0 THEN e.nested ELSE fx
      want == Complete(fx2, mk, e.xf)
  IN IF e.outcome # "ok" THEN "internal_exception"
     ELSE IF \E i \in 1..Len(e.rows) : ~RowAgrees(e.rows[i], fx2, mk) THEN "fixed_variable_moved_in_evaluator_row"
     ELSE IF \E i \in 1..Len(e.unpert) : \E v \in 1..Len(mk) : ~ObsEqInt(e.unpert[i][v], want[v]) THEN "unperturbed_row_not_the_completed_request"
     ELSE IF \E i \in 1..Len(e.resvars) : \E v \in 1..Len(mk) : ~ObsEqInt(e.resvars[i][v], want[v]) THEN "reported_variables_not_the_completed_request"
     ELSE IF \E i \in 1..Len(e.pertvars) : ~RowAgrees(e.pertvars[i], fx2, mk) THEN "fixed_variable_moved_in_reported_perturbation"
     ELSE IF \E i \in 1..Len(e.gradzero) : \E v \in 1..Len(mk) : ~mk[v] /\ ~e.gradzero[i][v] THEN "gradient_of_fixed_variable_nonzero"
     ELSE IF e.glen # -1 /\ e.glen # FreeCount(mk) THEN "backend_sees_fixed_variables"
     ELSE "ok"

Init == tid \in 1..Len(Traces) /\ l = 1 /\ verdict = "ok" /\ fixed = <<>> /\ mask = <<>>
Next == /\ verdict = "ok" /\ l <= Len(Traces[tid])
        /\ LET e == Traces[tid][l] IN
           CASE e.ev = "Start" ->
                  /\ fixed' = e.x0 /\ mask' = e.mask
                  /\ verdict' = IF e.seenlen # -1 /\ e.seenlen # FreeCount(e.mask) THEN "backend_sees_fixed_variables" ELSE "ok"
             [] e.ev = "Req" ->
                  /\ verdict' = CheckReq(e, fixed, mask)
                  /\ fixed' = (IF Len(e.nested) > 0 THEN e.nested ELSE fixed) /\ UNCHANGED mask
             [] e.ev = "Rows" ->
                  /\ verdict' = IF \E i \in 1..Len(e.rows) : ~RowAgrees(e.rows[i], fixed, mask) THEN "fixed_variable_moved_in_evaluator_row"
                                ELSE IF e.outcome # "ok" THEN "internal_exception" ELSE "ok"
                  /\ UNCHANGED <<fixed, mask>>
        /\ l' = IF verdict' = "ok" THEN l + 1 ELSE l
        /\ UNCHANGED tid
Report == (verdict # "ok" \/ l = Len(Traces[tid]) + 1) =>
            PrintT(<<IF verdict = "ok" THEN "ACCEPT" ELSE "REJECT", tid, l, verdict>>)
=============================================================================
