------------------------------ MODULE MC_C04 ------------------------------
(* Bounded instance for C04: every ensemble size n <= NMax, every ordering  *)
(* (permutation) of the ranked values, every failure mask, every percentile *)
(* k/D on the grid, every flavour.  One initial state per scenario, one     *)
(* Compute step; the invariants state that the implementation-shaped CVaR   *)
(* refines the declarative one.  Terminal states emit the scenario.         *)
EXTENDS Filters, TLC, Json

CONSTANTS NMax, D, Family, Emit
VARIABLES sc, u, phase

Flavours == {"obj", "objneg", "le", "ge", "eq"}      \* "objneg": the ranked objective has a negative weight
Target == 1                                   \* equality target / bound value

KeyOf(fl, v) == CASE fl = "obj" -> v
                  [] fl = "objneg" -> -v
                  [] fl = "le"  -> v - Target        \* c - ub, larger = worse
                  [] fl = "ge"  -> Target - v        \* lb - c, larger = worse
                  [] fl = "eq"  -> Abs(v - Target)

\* family "perm": distinct values perm[i] - 2 ; family "multi": two objectives in 0..1, weights (1, 2)
InitPerm  == \E n \in 1..NMax : \E p \in Perms(n) : \E F \in SUBSET (1..n) : \E k \in 1..D : \E fl \in Flavours :
               sc = [n |-> n, val |-> [i \in 1..n |-> p[i] - 2], o2 |-> [i \in 1..n |-> 0], F |-> F, k |-> k, fl |-> fl, multi |-> FALSE]
InitMulti == \E n \in 2..NMax : \E a \in [1..n -> 0..1] : \E b \in [1..n -> 0..1] : \E F \in SUBSET (1..n) : \E k \in {D \div 4, D \div 2, (3 * D) \div 4, D} :
               sc = [n |-> n, val |-> a, o2 |-> b, F |-> F, k |-> k, fl |-> "obj", multi |-> TRUE]

Init == /\ IF Family = "perm" THEN InitPerm ELSE InitMulti
        /\ u = <<>> /\ phase = "init"

Key == [i \in 1..sc.n |-> IF sc.multi THEN sc.val[i] + 2 * sc.o2[i] ELSE KeyOf(sc.fl, sc.val[i])]

Compute == /\ phase = "init"
           /\ u' = CVaRImpl(sc.n, Key, sc.F, sc.k, D)
           /\ phase' = "done" /\ UNCHANGED sc
Next == Compute

S == Succ(sc.n, sc.F)
InvCVaR  == phase = "done" /\ S # {} => IsCVaR(sc.n, u, Key, sc.F, sc.k, D)
InvTail  == phase = "done" /\ S # {} =>
              QEq(TailMean(sc.n, u, Key), <<TailWalk(Key, Key, S, sc.k * Cardinality(S), D), sc.k * Cardinality(S)>>)
InvEmpty == phase = "done" /\ S = {} => \A i \in 1..sc.n : u[i] = 0
InvEmit  == phase = "done" /\ Emit =>
              PrintT(ToJson([n |-> sc.n, val |-> sc.val, o2 |-> sc.o2, failed |-> [i \in 1..sc.n |-> i \in sc.F],
                             k |-> sc.k, D |-> D, fl |-> sc.fl, multi |-> sc.multi, target |-> Target, u |-> u]))
=============================================================================
