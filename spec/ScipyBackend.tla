---------------------------- MODULE ScipyBackend ----------------------------
(* The SciPy optimizer plug-in as a server of callables (plugins/optimizer/    *)
(* scipy.py).  SciPy is modelled as an ARBITRARY client: it may request the    *)
(* objective (f), its gradient (g), the k-th normalised constraint value (c)   *)
(* or Jacobian (J) at any point of a pool, in any order.                       *)
(*                                                                             *)
(* State of the plug-in:                                                       *)
(*   cx    point the caches belong to (0 = none)                               *)
(*   hasF, hasG   function / gradient values cached for cx                     *)
(*   ncAt, njAt   point the normalised constraint values / Jacobians were      *)
(*                computed at (0 = none)                                       *)
(*   calls log of optimizer-callback invocations [pt, f, g]                    *)
(*   ret   last return [kind, req, at]: requested point and point the returned *)
(*         value was computed at                                               *)
(* Parameters: Class ("grad" | "nograd"), Speculative, Split, CheckPoint       *)
(* (FALSE = the as-is behaviour of the constraint callables, which serve the   *)
(* cached normalised values without looking at the point).                     *)
EXTENDS Util

CONSTANTS Class, Speculative, Split, CheckPoint, Points, L
VARIABLES cx, hasF, hasG, ncAt, njAt, calls, ret, hist
vars == <<cx, hasF, hasG, ncAt, njAt, calls, ret, hist>>

Spec2 == Speculative /\ Class = "grad"           \* speculation never makes a gradient-free method evaluate gradients

\* the callbacks issued to obtain (needF, needG) at x: one combined call, or two when Split
CallsFor(x, needF, needG) ==
  IF needF /\ needG /\ Split THEN <<[pt |-> x, f |-> TRUE, g |-> FALSE], [pt |-> x, f |-> FALSE, g |-> TRUE]>>
  ELSE IF needF \/ needG THEN <<[pt |-> x, f |-> needF, g |-> needG]>>
  ELSE <<>>

\* common front end of every callable: a new point invalidates everything
Fresh(x) == cx # x
F0(x) == IF Fresh(x) THEN FALSE ELSE hasF
G0(x) == IF Fresh(x) THEN FALSE ELSE hasG

\* obtain function and/or gradient values at x (wantF / wantG say what the caller needs)
Obtain(x, wantF, wantG) ==
  LET missF == wantF /\ ~F0(x)
      missG == wantG /\ ~G0(x)
      \* speculative: whenever something is computed, compute the other one too (if not cached yet);
      \* split evaluations: a gradient is only computed when the function values are (or become) available
      needF == missF \/ (missG /\ ~F0(x) /\ (Spec2 \/ Split))
      needG == missG \/ (missF /\ ~G0(x) /\ Spec2)
  IN /\ calls' = calls \o CallsFor(x, needF, needG)
     /\ cx' = x
     /\ hasF' = (F0(x) \/ needF)
     /\ hasG' = (G0(x) \/ needG)

ReqF(x) == /\ Obtain(x, TRUE, FALSE)
           /\ ncAt' = (IF Fresh(x) THEN 0 ELSE ncAt)
           /\ njAt' = (IF Fresh(x) THEN 0 ELSE njAt)
           /\ ret' = [kind |-> "f", req |-> x, at |-> x]
ReqG(x) == /\ Class = "grad"
           /\ Obtain(x, FALSE, TRUE)
           /\ ncAt' = (IF Fresh(x) THEN 0 ELSE ncAt)
           /\ njAt' = (IF Fresh(x) THEN 0 ELSE njAt)
           /\ ret' = [kind |-> "g", req |-> x, at |-> x]
ReqC(x) == IF ~CheckPoint /\ ncAt # 0
           THEN /\ ret' = [kind |-> "c", req |-> x, at |-> ncAt]            \* as-is: whatever is cached
                /\ UNCHANGED <<cx, hasF, hasG, ncAt, njAt, calls>>
           ELSE /\ Obtain(x, TRUE, FALSE)
                /\ ncAt' = x
                /\ njAt' = (IF Fresh(x) THEN 0 ELSE njAt)
                /\ ret' = [kind |-> "c", req |-> x, at |-> x]
ReqJ(x) == /\ Class = "grad"
           /\ IF ~CheckPoint /\ njAt # 0
              THEN /\ ret' = [kind |-> "J", req |-> x, at |-> njAt]
                   /\ UNCHANGED <<cx, hasF, hasG, ncAt, njAt, calls>>
              ELSE /\ Obtain(x, FALSE, TRUE)
                   /\ njAt' = x
                   /\ ncAt' = (IF Fresh(x) THEN 0 ELSE ncAt)
                   /\ ret' = [kind |-> "J", req |-> x, at |-> x]

Init == /\ cx = 0 /\ hasF = FALSE /\ hasG = FALSE /\ ncAt = 0 /\ njAt = 0
        /\ calls = <<>> /\ ret = [kind |-> "none", req |-> 0, at |-> 0] /\ hist = <<>>
Next == /\ Len(hist) < L
        /\ \E x \in Points :
             \/ ReqF(x) /\ hist' = Append(hist, [op |-> "f", x |-> x])
             \/ ReqG(x) /\ hist' = Append(hist, [op |-> "g", x |-> x])
             \/ ReqC(x) /\ hist' = Append(hist, [op |-> "c", x |-> x])
             \/ ReqJ(x) /\ hist' = Append(hist, [op |-> "J", x |-> x])

\* ---- the clauses of C07 ------------------------------------------------------
ValueAtRequestedPoint == ret.kind # "none" => ret.at = ret.req
\* within a maximal run of callbacks at one point, functions and gradients are each evaluated at most once
NeverTwice == \A i, j \in 1..Len(calls) :
                 (i < j /\ calls[i].pt = calls[j].pt /\ \A m \in i..j : calls[m].pt = calls[i].pt)
                 => ~(calls[i].f /\ calls[j].f) /\ ~(calls[i].g /\ calls[j].g)
NoGradientForGradientFree == Class # "grad" => \A i \in 1..Len(calls) : ~calls[i].g
SplitNeverBoth == Split => \A i \in 1..Len(calls) : ~(calls[i].f /\ calls[i].g)
\* with split evaluations a gradient callback always finds the function values of that point available
SplitGradientAfterFunction == Split => \A i \in 1..Len(calls) : calls[i].g =>
                                 \E j \in 1..(i - 1) : calls[j].f /\ \A m \in j..i : calls[m].pt = calls[i].pt
=============================================================================
