INIT TInit
NEXT TNext
INVARIANT Report
INVARIANT Safe
CHECK_DEADLOCK FALSE
