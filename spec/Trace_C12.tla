----------------------------- MODULE Trace_C12 -----------------------------
(* Total trace validator for C12: after every FINISHED_EVALUATION event the    *)
(* result held by the tracker must satisfy Tracker!Holds over the whole        *)
(* history so far.  "Final" events compare BasicOptimizer.results likewise.    *)
EXTENDS Tracker, TLC, Json, IOUtils

Traces == JsonDeserialize(IOEnv.TRACE_FILE)
VARIABLES tid, l, verdict, hist

Init == tid \in 1..Len(Traces) /\ l = 1 /\ verdict = "ok" /\ hist = <<>>
Next == /\ verdict = "ok" /\ l <= Len(Traces[tid])
        /\ LET e == Traces[tid][l]
               \* a tracker created without sources (None, omitted, the empty set) listens to no step at all
               h == Append(hist, [src |-> IF e.listens THEN e.src ELSE "other", items |-> e.items])
           IN /\ hist' = h
              /\ verdict' = IF e.ev \notin {"Feed", "Event"} THEN "unknown_event"
                            ELSE IF e.ev = "Feed" THEN "ok"          \* fed to the tracker, its state not observed here
                            ELSE IF ~e.keptuser THEN "tracker_hands_out_the_optimizer_domain_result"
                            ELSE IF ~e.varsmatch THEN "basic_optimizer_variables_not_those_of_the_reported_result"
                            ELSE IF Holds(e.what, e.kept, h, e.flip) THEN "ok"
                            ELSE IF e.kept = 0 THEN "valid_result_blocked_or_dropped"
                            ELSE IF e.what = "best" /\ (\E it \in AllItems(h) : it.id = e.kept /\ Valid(it)) THEN "kept_result_not_the_optimum"
                            ELSE IF e.what = "best" THEN "kept_result_not_valid"
                            ELSE "kept_result_not_the_last_feasible"
        /\ l' = IF verdict' = "ok" THEN l + 1 ELSE l
        /\ UNCHANGED tid
Report == (verdict # "ok" \/ l = Len(Traces[tid]) + 1) =>
            PrintT(<<IF verdict = "ok" THEN "ACCEPT" ELSE "REJECT", tid, l, verdict>>)
=============================================================================
