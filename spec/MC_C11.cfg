CONSTANTS
  Emit = TRUE
INIT Init
NEXT Next
INVARIANT InvRoundTrip
INVARIANT InvBounds
INVARIANT InvLinear
INVARIANT InvDiffs
INVARIANT InvEmit
CHECK_DEADLOCK FALSE
