---------------------------- MODULE KernelProofs ----------------------------
(* Unbounded proofs (TLAPS, SMT back end) of the integer facts that TLC checks   *)
(* only on bounded grids: MC_C13 (violations), MC_C10 (boundary handling),       *)
(* MC_C08 (normalised constraint rows).                                          *)
(* The definitions are copied verbatim from ConstraintInfo.tla, Bounds.tla and   *)
(* NormCons.tla (TLAPS does not read the CommunityModules the kernels extend).   *)
EXTENDS Integers, TLAPS

INF == 1000000
IsInf(b) == b >= INF \/ b <= -INF
Max2(a, b) == IF a >= b THEN a ELSE b

\* ---------------------------------------------------------------- ConstraintInfo
Violation(v, lb, ub) == Max2(Max2(IF IsInf(lb) THEN 0 ELSE lb - v, IF IsInf(ub) THEN 0 ELSE v - ub), 0)
Dist(v, lb, ub) == IF ~IsInf(lb) /\ v < lb THEN lb - v ELSE IF ~IsInf(ub) /\ v > ub THEN v - ub ELSE 0
Outside(v, lb, ub) == (~IsInf(lb) /\ v < lb) \/ (~IsInf(ub) /\ v > ub)

THEOREM ViolationIsDistance ==
  \A v, lb, ub \in Int : lb <= ub => Violation(v, lb, ub) = Dist(v, lb, ub)
  BY DEF Violation, Dist, Max2, IsInf, INF
THEOREM OutsideIffPositiveViolation ==
  \A v, lb, ub \in Int : lb <= ub => (Outside(v, lb, ub) <=> Violation(v, lb, ub) > 0)
  BY DEF Violation, Outside, Max2, IsInf, INF
THEOREM ViolationNonNegative ==
  \A v, lb, ub \in Int : Violation(v, lb, ub) >= 0
  BY DEF Violation, Max2, IsInf, INF

\* ------------------------------------------------------------------------ Bounds
Inside(v, lb, ub) == lb <= v /\ v <= ub
Clip(v, lb, ub) == IF v < lb THEN lb ELSE IF v > ub THEN ub ELSE v
MirrorLow(v, lb, ub)  == IF v < lb THEN (IF 2 * lb - v > ub THEN 2 * ub - (2 * lb - v) ELSE 2 * lb - v)
                         ELSE (IF v > ub THEN 2 * ub - v ELSE v)
MirrorHigh(v, lb, ub) == IF v > ub THEN (IF 2 * ub - v < lb THEN 2 * lb - (2 * ub - v) ELSE 2 * ub - v)
                         ELSE (IF v < lb THEN 2 * lb - v ELSE v)
Mirror(v, lb, ub) ==
  IF v < lb THEN Clip(MirrorLow(MirrorLow(MirrorLow(v, lb, ub), lb, ub), lb, ub), lb, ub)
  ELSE IF v > ub THEN Clip(MirrorHigh(MirrorHigh(MirrorHigh(v, lb, ub), lb, ub), lb, ub), lb, ub)
  ELSE v
Reflect(v, lb, ub) == IF v < lb THEN 2 * lb - v ELSE IF v > ub THEN 2 * ub - v ELSE v

THEOREM ClipWithinBounds ==
  \A v, lb, ub \in Int : lb <= ub => Inside(Clip(v, lb, ub), lb, ub)
  BY DEF Clip, Inside
THEOREM InsideNeverAltered ==
  \A v, lb, ub \in Int : Inside(v, lb, ub) => Clip(v, lb, ub) = v /\ Mirror(v, lb, ub) = v
  BY DEF Clip, Mirror, Inside
THEOREM MirrorWithinBounds ==
  \A v, lb, ub \in Int : lb <= ub => Inside(Mirror(v, lb, ub), lb, ub)
  BY Z3T(120) DEF Mirror, MirrorLow, MirrorHigh, Clip, Inside
\* one reflection suffices when the overshoot is at most one bound width, and the code then returns exactly it
THEOREM MirrorIsSingleReflection ==
  \A v, lb, ub \in Int : lb <= ub /\ Inside(Reflect(v, lb, ub), lb, ub) => Mirror(v, lb, ub) = Reflect(v, lb, ub)
  BY Z3T(120) DEF Mirror, MirrorLow, MirrorHigh, Clip, Inside, Reflect
\* ... and two reflections when the first one overshoots the opposite bound by at most one width
THEOREM MirrorIsDoubleReflection ==
  \A v, lb, ub \in Int : lb <= ub /\ ~Inside(v, lb, ub) /\ ~Inside(Reflect(v, lb, ub), lb, ub)
                          /\ Inside(Reflect(Reflect(v, lb, ub), lb, ub), lb, ub)
                          => Mirror(v, lb, ub) = Reflect(Reflect(v, lb, ub), lb, ub)
  BY Z3T(120) DEF Mirror, MirrorLow, MirrorHigh, Clip, Inside, Reflect

\* ---------------------------------------------------------------------- NormCons
\* one configured constraint [lb, ub] and the rows it is normalised to
SatC(v, lb, ub) == (IsInf(lb) \/ lb <= v) /\ (IsInf(ub) \/ v <= ub)
RowsOK(v, lb, ub) ==
  IF lb = ub THEN v - lb = 0
  ELSE (IsInf(lb) \/ (v - lb) >= 0) /\ (IsInf(ub) \/ (0 - 1) * (v - ub) >= 0)
THEOREM NormalisedRowsEquivalent ==
  \A v, lb, ub \in Int : lb <= ub /\ (lb = ub => ~IsInf(lb)) => (SatC(v, lb, ub) <=> RowsOK(v, lb, ub))
  BY DEF SatC, RowsOK, IsInf, INF

=============================================================================
