CONSTANTS
  NNL = 2
  NLIN = 1
  Methods = {"slsqp", "cobyla", "differential_evolution", "l-bfgs-b", "tnc"}
  Emit = TRUE
INIT Init
NEXT Next
INVARIANT InvEquivalent
INVARIANT InvRowCount
INVARIANT InvEmit
CHECK_DEADLOCK FALSE
