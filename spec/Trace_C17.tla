----------------------------- MODULE Trace_C17 -----------------------------
(* Total trace validator for C17: each event is one generate_samples() call of *)
(* a built-in sampler, projected onto flags and point indices:                 *)
(*   entries[r][p][v] = [zero, inrange]; eqreal[r] = (Sample[r] = Sample[1]);  *)
(*   ptidx[r][p] = index (within the block of points the engine drew for this  *)
(*   call) of the reference point equal to the perturbation vector, 0 if none; *)
(*   strat[r][p][j] = Latin-hypercube stratum of handled coordinate j.         *)
EXTENDS SamplerLayout, TLC, Json, IOUtils

Traces == JsonDeserialize(IOEnv.TRACE_FILE)
VARIABLES tid, l, verdict

Bounded(m) == m \in {"uniform", "truncnorm", "sobol", "halton", "lhs"}
QMC(m) == m \in {"sobol", "halton", "lhs"}

Check(e) ==
  LET R == e.R  P == e.P  V == e.V
      H == Handled(e.mask)
      D == Cardinality(H)
      RR == IF e.shared THEN 1 ELSE R
      N == RR * P
      pairs == (1..RR) \X (1..P)
  IN IF e.outcome # "ok" THEN "internal_exception"
     ELSE IF e.shape # <<R, P, V>> THEN "shape_not_realizations_perturbations_variables"
     ELSE IF \E r \in 1..R : \E p \in 1..P : \E v \in (1..V) \ H : ~e.entries[r][p][v].zero THEN "nonzero_for_unhandled_variable"
     ELSE IF Bounded(e.method) /\ (\E r \in 1..R : \E p \in 1..P : \E v \in 1..V : ~e.entries[r][p][v].inrange) THEN "outside_minus_one_one"
     ELSE IF e.shared /\ (\E r \in 1..R : ~e.eqreal[r]) THEN "shared_perturbations_differ_between_realizations"
     ELSE IF ~e.shared /\ R > 1 /\ H # {} /\ (\A r \in 1..R : e.eqreal[r]) THEN "not_drawn_per_realization"
     ELSE IF QMC(e.method) /\ e.refvalid /\ (\E r \in 1..R : \E p \in 1..P : e.ptidx[r][p] = 0) THEN "perturbation_is_not_a_point_of_the_sequence"
     ELSE IF QMC(e.method) /\ e.refvalid /\ (\E a, b \in pairs : a # b /\ e.ptidx[a[1]][a[2]] = e.ptidx[b[1]][b[2]]) THEN "sequence_point_used_twice"
     ELSE IF e.method = "lhs" /\ D > 0 /\ (\E j \in 1..D : Cardinality({e.strat[a[1]][a[2]][j] : a \in pairs}) # N) THEN "latin_hypercube_stratification_lost"
     ELSE "ok"

Init == tid \in 1..Len(Traces) /\ l = 1 /\ verdict = "ok"
Next == /\ verdict = "ok" /\ l <= Len(Traces[tid])
        /\ verdict' = IF Traces[tid][l].ev \notin {"Samples"} THEN "unknown_event" ELSE Check(Traces[tid][l])
        /\ l' = IF verdict' = "ok" THEN l + 1 ELSE l
        /\ UNCHANGED tid
Report == (verdict # "ok" \/ l = Len(Traces[tid]) + 1) =>
            PrintT(<<IF verdict = "ok" THEN "ACCEPT" ELSE "REJECT", tid, l, verdict>>)
=============================================================================
