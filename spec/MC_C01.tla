------------------------------ MODULE MC_C01 ------------------------------
(* Bounded instance for C01 (and the function half of C03).                 *)
(* Functions 1..3 = objective 0, objective 1, constraint 0.                  *)
(* Filter 0 = sort-objective on objective 0, window [0, R-2] (R=1: [0,0]);   *)
(* filter 1 = cvar-objective on objective 1, percentile 1/2.                 *)
EXTENDS Ensemble, TLC, Json

CONSTANTS RSet, VCSet, WSet, OSet, EstSet, Emit
VARIABLES sc, out, phase

\* catalogues (objective columns have distinct entries so that rankings are unique)
Col(R, c) == CASE c = 1 -> [r \in 1..R |-> <<-2, 0, 1, 2>>[r]]
               [] c = 2 -> [r \in 1..R |-> <<1, -1, 2, 0>>[r]]
               [] c = 3 -> [r \in 1..R |-> <<0, 2, 2, -1>>[r]]
               [] c = 4 -> [r \in 1..R |-> <<2, 1, -2, -1>>[r]]
RW(R, w) == CASE w = 1 -> [r \in 1..R |-> 1]
              [] w = 2 -> [r \in 1..R |-> <<1, 2, 0, 1>>[r]]
              [] w = 3 -> [r \in 1..R |-> <<2, 1, 1, 3>>[r]]
              [] w = 4 -> [r \in 1..R |-> <<0, 0, 1, 2>>[r]]
              [] w = 5 -> [r \in 1..R |-> <<1, 0, 2, 0>>[r]]
OW(o) == CASE o = 1 -> <<1, 1>> [] o = 2 -> <<3, 1>> [] o = 3 -> <<1, 0>>     \* zero weight: only where filter 1 (keyed on objective 1) is unused
Ests == {<<"mean","mean","mean">>, <<"std","mean","mean">>, <<"mean","std","std">>, <<"std","std","mean">>,
         <<"mean","mean","std">>, <<"std","mean","std">>, <<"mean","std","mean">>, <<"std","std","std">>}
EstOf(i) == CHOOSE e \in Ests : \E k \in 1..8 : k = i /\ e =
              <<IF i \in {2,4,6,8} THEN "std" ELSE "mean", IF i \in {3,4,7,8} THEN "std" ELSE "mean", IF i \in {3,5,6,8} THEN "std" ELSE "mean">>

Init == /\ \E R \in RSet : \E vc \in VCSet : \E w \in WSet : \E o \in OSet : \E e \in EstSet :
           \E m1 \in {-1, 0, 1} : \E m2 \in {-1, 0, 1} : \E m3 \in {-1, 1} :
           \E F \in SUBSET (1..R) : \E nc \in 1..3 : \E ms \in {0, 1, R} :
             /\ (F = {} => nc = 1)
             /\ (o = 3 => m1 # 1 /\ m2 # 1 /\ m3 # 1)
             /\ SumTo(RW(R, w), R) > 0
             /\ sc = [R |-> R, rw |-> RW(R, w), ow |-> OW(o), est |-> EstOf(e), flt |-> <<m1, m2, m3>>,
                      cols |-> <<Col(R, vc), Col(R, (vc % 4) + 1), Col(R, ((vc + 1) % 4) + 1)>>,
                      F |-> F, nancol |-> nc, minsucc |-> ms]
        /\ out = [st |-> "none"] /\ phase = "init"

Compute == phase = "init" /\ out' = Eval(sc) /\ phase' = "done" /\ UNCHANGED sc
Next == Compute

InvReduce == phase = "done" /\ out.st = "ok" =>
               \A f \in 1..3 : SameRes(out.res[f], EvalReduced(sc)[f])
InvVar == phase = "done" /\ out.st = "ok" =>
            \A f \in 1..3 : LET u == Eff(out.units[f], sc.F) IN
               (sc.est[f] = "std" /\ out.res[f].st = "val") => QEq(VarQ(u, sc.cols[f]), VarDef(u, sc.cols[f])) /\ VarQ(u, sc.cols[f])[1] >= 0
InvMeanRange == phase = "done" /\ out.st = "ok" =>
            \A f \in 1..3 : (sc.est[f] = "mean" /\ out.res[f].st = "val") =>
               \E a, b \in Succ(sc.R, sc.F) : QLe(<<sc.cols[f][a], 1>>, out.res[f].q) /\ QLe(out.res[f].q, <<sc.cols[f][b], 1>>)
InvEmit == phase = "done" /\ Emit =>
             PrintT(ToJson([R |-> sc.R, rw |-> sc.rw, ow |-> sc.ow, est |-> sc.est, flt |-> sc.flt, cols |-> sc.cols,
                            failed |-> [r \in 1..sc.R |-> r \in sc.F], nancol |-> sc.nancol, minsucc |-> sc.minsucc,
                            expect |-> out.st]))
=============================================================================
