------------------------------ MODULE MC_C13 ------------------------------
(* Bounded instance for C13: value x bound pair (either side finite or         *)
(* infinite) for a first entry, a companion entry from a catalogue so that     *)
(* every finite/infinite mix within one bound vector occurs; the same triples  *)
(* are used for variable bounds, linear rows and non-linear constraints.        *)
EXTENDS ConstraintInfo, TLC, Json

CONSTANTS VMax, Emit
VARIABLES sc, out, phase

Lows == {-INF} \cup (-2..2)
Ups  == (-2..2) \cup {INF}
Companions == {<<0, -1, 1>>, <<2, -INF, 1>>, <<-2, -1, INF>>, <<1, -INF, INF>>, <<3, 0, 2>>, <<-3, -2, INF>>}
\* tf: which transforms are in force (0 none, 1 all, 2 variable scales, 3 variable offsets only, 4 non-linear constraint
\* scaling only, 5 objective scaling only): the user-domain differences do not depend on it
\* vfree: the variables themselves are unbounded (the bound pairs then only apply to the linear rows and the non-linear
\* constraints)
Init == /\ \E v \in -VMax..VMax : \E lb \in Lows : \E ub \in Ups : \E c \in Companions : \E tol \in {0, 1, 2} : \E tf \in 0..5 :
           \E vfree \in BOOLEAN : \E eps \in {-1, 0, 1} :
             \* eps: the first variable is v + eps/65536 - values very close to, but not on, a bound (no snapping)
             /\ (eps # 0 => c = <<0, -1, 1>> /\ tf \in {0, 1} /\ tol \in {0, 1} /\ v \in -3..3)      \* (keeps numerators in units of 1/65536 small)
             /\ lb <= ub
             /\ (vfree => tol = 1)
             /\ sc = [v |-> <<v, c[1]>>, lb |-> <<lb, c[2]>>, ub |-> <<ub, c[3]>>, tol |-> tol, tf |-> tf, vfree |-> vfree, eps |-> eps]
        /\ out = <<>> /\ phase = "init"
Compute == /\ phase = "init" /\ phase' = "done" /\ UNCHANGED sc
           /\ out' = [i \in 1..2 |-> [lower |-> LowerDiff(sc.v[i], sc.lb[i]), upper |-> UpperDiff(sc.v[i], sc.ub[i]),
                                      viol |-> Violation(sc.v[i], sc.lb[i], sc.ub[i])]]
Next == Compute
InvViolationIsDistance == phase = "done" => \A i \in 1..2 : out[i].viol = Dist(sc.v[i], sc.lb[i], sc.ub[i])
InvOutsidePositive == phase = "done" => \A i \in 1..2 : Outside(sc.v[i], sc.lb[i], sc.ub[i]) <=> out[i].viol > 0
InvFromDiffs == phase = "done" => \A i \in 1..2 :      \* the violation is determined by the two reported differences
                  out[i].viol = Max2(IF out[i].lower.inf = 0 /\ out[i].lower.v < 0 THEN -out[i].lower.v ELSE 0,
                                     IF out[i].upper.inf = 0 /\ out[i].upper.v > 0 THEN out[i].upper.v ELSE 0)
InvEmit == phase = "done" /\ Emit => PrintT(ToJson(sc))
=============================================================================
