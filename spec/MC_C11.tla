------------------------------ MODULE MC_C11 ------------------------------
EXTENDS Transforms, TLC, Json
CONSTANTS Emit
VARIABLES sc, phase
Scales == {<<<<1, 2>>, <<2, 1>>>>, <<<<2, 1>>, <<4, 1>>>>, <<<<1, 1>>, <<1, 2>>>>, <<<<4, 1>>, <<4, 1>>>>}
Offsets == {<<0, 0>>, <<1, -1>>, <<-1, 1>>}
Rows == {<<1, 1>>, <<1, -2>>, <<0, 2>>}
Kinds == {<<-1, -1>>, <<-1, INF>>, <<-INF, 2>>, <<-1, 2>>, <<32, 32>>}          \* equality, lower, upper, two-sided, narrow
\* (narrow: with nar = 1 the row <<32, 32>> stands for the genuine range 32 <= a.x <= 32 + 2^-12, not an equality)
Points == {<<0, 0>>, <<1, -1>>, <<-2, 1>>}
Init == /\ \E s \in Scales : \E o \in Offsets : \E fs \in {<<1, 2>>, <<2, 1>>} : \E bnd \in {"finite", "mixinf", "none"} :        \* "none": no variable bounds and no non-linear constraints at all
           \E a \in Rows : \E k \in Kinds : \E pt \in {"abs", "rel"} : \E x \in Points :
           \E which \in {"all", "vars", "obj", "con", "offs", "scal"} : \E fail \in BOOLEAN : \E nar \in {0, 1} :
             /\ ((nar = 1) <=> (k = <<32, 32>>))
             \* (offs / scal: a variable transform with offsets / scales only)
             /\ (pt = "rel" => bnd = "finite")
             /\ (bnd = "none" => which \in {"all", "vars", "offs"} /\ ~fail)
             /\ (which # "all" => o = <<1, -1>> /\ fs = <<1, 2>> /\ a = <<1, -2>>)       \* keep the single-transform families small
             /\ (fail => which \in {"all", "vars"} /\ a = <<1, 1>> /\ x = <<1, -1>>)
             /\ sc = [s |-> s, o |-> o, fs |-> fs, bnd |-> bnd, a |-> a, l |-> k[1], u |-> k[2], ptype |-> pt, x |-> x, which |-> which, fail |-> fail, nar |-> nar,
                      lb |-> IF bnd = "finite" THEN <<-2, -2>> ELSE IF bnd = "none" THEN <<-INF, -INF>> ELSE <<-INF, -2>>,
                      ub |-> IF bnd = "finite" THEN <<2, 2>> ELSE IF bnd = "none" THEN <<INF, INF>> ELSE <<2, INF>>]
        /\ phase = "init"
Next == phase = "init" /\ phase' = "done" /\ UNCHANGED sc
X == <<<<sc.x[1], 1>>, <<sc.x[2], 1>>>>
InvRoundTrip == phase = "done" => \A v \in 1..2 : RoundTrip(X[v], sc.s[v], sc.o[v])
InvBounds == phase = "done" => \A v \in 1..2 : \A t \in -3..3 :
               SatQ(<<t, 1>>, sc.lb[v], sc.ub[v]) <=>
                 /\ (IsInf(sc.lb[v]) \/ QLe(ToOpt(<<sc.lb[v], 1>>, sc.s[v], sc.o[v]), ToOpt(<<t, 1>>, sc.s[v], sc.o[v])))
                 /\ (IsInf(sc.ub[v]) \/ QLe(ToOpt(<<t, 1>>, sc.s[v], sc.o[v]), ToOpt(<<sc.ub[v], 1>>, sc.s[v], sc.o[v])))
InvLinear == phase = "done" => \A p \in {<<a, b>> : a \in -2..2, b \in -2..2} :
               RowEquivalent(sc.a, sc.l, sc.u, sc.s, sc.o, <<<<p[1], 1>>, <<p[2], 1>>>>)
InvDiffs == phase = "done" =>
              /\ (~IsInf(sc.l) => QEq(RowDiffBack(sc.a, sc.l, sc.s, sc.o, X), QSub(RowUser(sc.a, X), <<sc.l, 1>>)))
              /\ (~IsInf(sc.u) => QEq(RowDiffBack(sc.a, sc.u, sc.s, sc.o, X), QSub(RowUser(sc.a, X), <<sc.u, 1>>)))
              /\ \A v \in 1..2 : ~IsInf(sc.lb[v]) => QEq(BoundDiffBack(X[v], sc.lb[v], sc.s[v], sc.o[v]), QSub(X[v], <<sc.lb[v], 1>>))
InvEmit == phase = "done" /\ Emit => PrintT(ToJson(sc))
=============================================================================
