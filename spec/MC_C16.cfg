CONSTANTS
  L = 4
  UsesGlobal = FALSE
  UsesHistory = FALSE
  UsesProcess = FALSE
  UsesConcurrent = FALSE
  Emit = TRUE
INIT Init
NEXT Next
INVARIANT Reproducible
INVARIANT SeedMatters
INVARIANT InvEmit
CHECK_DEADLOCK FALSE
