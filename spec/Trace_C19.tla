----------------------------- MODULE Trace_C19 -----------------------------
(* Total trace validator for C19: replays a recorded call history of real     *)
(* PluginManager objects against PluginManager.tla.  The first event gives    *)
(* the registry discovered from the installation (the spec's initial state).  *)
EXTENDS PluginManager, TLC, Json, IOUtils

Traces == JsonDeserialize(IOEnv.TRACE_FILE)
VARIABLES tid, l, verdict, reg

SeqToSet(s) == {s[i] : i \in 1..Len(s)}
RegOf(entries) == [i \in 1..Len(entries) |->
                     [name |-> entries[i].name,
                      plugin |-> [id |-> entries[i].id, methods |-> SeqToSet(entries[i].methods), discover |-> entries[i].discover]]]

Check(e, rg) ==
  CASE e.ev = "Init" -> "ok"
    [] e.ev = "Call" /\ e.op = "add" ->
         IF e.ret # AddResult(rg[e.m], e.rawl) THEN
            (IF e.ret = "ok" THEN "duplicate_registration_accepted" ELSE "registration_rejected")
         ELSE "ok"
    [] e.ev = "Call" /\ e.op = "get" ->
         LET x == Lookup(rg[e.m], e.plugl, e.meth) IN
         IF e.ret = x THEN "ok"
         ELSE IF x = "ConfigError" THEN "unsupported_request_not_config_error"
         ELSE IF e.ret = "ConfigError" THEN "supported_request_rejected"
         ELSE IF e.plug = "" THEN "bare_name_resolution_order" ELSE "qualified_name_resolution"
    [] e.ev = "Call" /\ e.op = "sup" ->
         IF (e.ret = "true") = IsSupported(rg[e.m], e.plugl, e.meth) THEN "ok" ELSE "is_supported_differs_from_lookup"
    [] e.ev = "Call" /\ e.op = "list" ->
         IF e.names = [i \in 1..Len(rg[e.m]) |-> rg[e.m][i].name] THEN "ok" ELSE "registry_order"
    [] OTHER -> "unknown_event"

Init == tid \in 1..Len(Traces) /\ l = 1 /\ verdict = "ok" /\ reg = <<<<>>, <<>>>>
Next == /\ verdict = "ok" /\ l <= Len(Traces[tid])
        /\ LET e == Traces[tid][l] IN
             /\ verdict' = Check(e, reg)
             /\ reg' = IF e.ev = "Init" THEN <<RegOf(e.regs[1]), RegOf(e.regs[2])>>
                       ELSE IF e.op = "add" THEN [reg EXCEPT ![e.m] = AddReg(reg[e.m], e.rawl, TestPlug(e.p), e.prio)]
                       ELSE reg
        /\ l' = IF verdict' = "ok" THEN l + 1 ELSE l
        /\ UNCHANGED tid
Report == (verdict # "ok" \/ l = Len(Traces[tid]) + 1) =>
            PrintT(<<IF verdict = "ok" THEN "ACCEPT" ELSE "REJECT", tid, l, verdict>>)
=============================================================================
