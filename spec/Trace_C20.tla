----------------------------- MODULE Trace_C20 -----------------------------
(* Trace validator for C20.  Events summarise one external-process run:       *)
(*   Run  {fault: "none"|"kill"|"raise"|"stop"|"childerror", outcome,         *)
(*         childalive (an optimizer process is still running after return),    *)
(*         hang (the run exceeded the harness deadline)}                       *)
(*   Pair {sigExt, sigIn} interned hashes of the complete evaluator traces of  *)
(*         the same method run through the external plug-in and in-process.    *)
(* The judgement follows the invariants of External.tla.                       *)
EXTENDS Util, TLC, Json, IOUtils

Traces == JsonDeserialize(IOEnv.TRACE_FILE)
VARIABLES tid, l, verdict

Check(e) ==
  IF e.ev = "Pair" THEN
     (IF e.inhang \/ e.hang THEN "run_hangs"
      \* the in-process run is the reference: it ends with an exit code, never with an exception
      ELSE IF e.inraised THEN "in_process_reference_run_raised_an_exception"
      ELSE IF e.extoutcome # e.inoutcome THEN "external_exit_code_differs_from_in_process"
      ELSE IF e.sigExt # e.sigIn THEN "external_evaluations_differ_from_in_process"
      ELSE IF e.childalive THEN "optimizer_process_left_running" ELSE "ok")
  ELSE IF e.fault \notin {"kill", "childerror", "raise", "stop", "none"} THEN "unknown_fault_kind"
  ELSE IF e.hang THEN "run_hangs"
  ELSE IF e.childalive THEN "optimizer_process_left_running"
  ELSE IF e.fault = "kill" /\ e.outcome \in {"finished"} THEN "killed_process_reported_as_normal_completion"
  ELSE IF e.fault = "childerror" /\ e.outcome \in {"finished"} THEN "process_error_reported_as_normal_completion"
  ELSE IF e.fault = "raise" /\ e.outcome # "exc:ValueError" THEN "evaluator_exception_swallowed_or_replaced"
  ELSE IF e.fault = "stop" /\ e.outcome # "maxfun" THEN "stop_code_lost"
  ELSE IF e.fault = "none" /\ e.outcome # "finished" THEN "uninterrupted_run_failed"
  ELSE "ok"

Init == tid \in 1..Len(Traces) /\ l = 1 /\ verdict = "ok"
Next == /\ verdict = "ok" /\ l <= Len(Traces[tid])
        /\ verdict' = IF Traces[tid][l].ev \notin {"Run", "Pair"} THEN "unknown_event" ELSE Check(Traces[tid][l])
        /\ l' = IF verdict' = "ok" THEN l + 1 ELSE l
        /\ UNCHANGED tid
Report == (verdict # "ok" \/ l = Len(Traces[tid]) + 1) =>
            PrintT(<<IF verdict = "ok" THEN "ACCEPT" ELSE "REJECT", tid, l, verdict>>)
=============================================================================
