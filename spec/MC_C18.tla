------------------------------ MODULE MC_C18 ------------------------------
EXTENDS ConfigCanon, TLC, Json
CONSTANTS Emit
VARIABLES sc, phase
Base == [V |-> 2, R |-> 2, rwp |-> "seq", owp |-> "one", bnd |-> "scalar", mask |-> "none", ptype |-> "abs", magn |-> "scalar",
         rms |-> -1, pms |-> -1, lin |-> "none", nl |-> "none"]
FamA == {[Base EXCEPT !.R = R, !.rwp = rwp, !.owp = owp, !.rms = rms, !.pms = pms] :
           R \in 1..3, rwp \in {"ones", "seq", "zeroend", "allzero", "mixed"}, owp \in {"one", "big", "pair", "zero", "mixed", "near"},
           rms \in {-1, 0, 1, 2, 3, 5}, pms \in {-1, 1, 2, 3, 5}}
FamB == {[Base EXCEPT !.V = V, !.bnd = b, !.mask = mk, !.ptype = pt, !.magn = mg] :
           V \in 1..3, b \in {"default", "scalar", "vector", "mixinf", "crossed", "badlen", "crossfix", "nested"},
           mk \in {"none", "scalar", "vector", "badlen"}, pt \in {"abs", "rel"}, mg \in {"scalar", "vector", "badlen"}}
FamC == {[Base EXCEPT !.lin = ln, !.nl = nl, !.bnd = b, !.ptype = pt] :
           ln \in {"none", "ok", "badcols", "crossed"}, nl \in {"none", "scalar", "vector", "crossed"}, b \in {"scalar", "vector"},
           pt \in {"abs", "rel"}}
Init == sc \in (FamA \cup FamB \cup FamC) /\ phase = "init"
Next == phase = "init" /\ phase' = "done" /\ UNCHANGED sc
InvWeights == phase = "done" /\ ~Rejected(sc) =>
                /\ WeightsCanonical(Canon(sc).rw, RW(sc.R, sc.rwp))
                /\ (sc.owp # "near" => WeightsCanonical(Canon(sc).ow, OW(sc.owp)))      \* (the products overflow TLC's integers there)
InvClamped == phase = "done" /\ ~Rejected(sc) => Canon(sc).rms \in 0..sc.R /\ Canon(sc).pms \in 1..P
InvBroadcast == phase = "done" /\ ~Rejected(sc) => Len(Canon(sc).lb) = sc.V /\ Len(Canon(sc).ub) = sc.V /\ Len(Canon(sc).magn) = sc.V
                                                    /\ (Len(Canon(sc).mask) \in {0, sc.V})
InvBoundsOrdered == phase = "done" /\ ~Rejected(sc) => \A v \in 1..sc.V : Canon(sc).lb[v] <= Canon(sc).ub[v]
InvRelativeRange == phase = "done" => RelativeInTransformedRange(sc)
InvScaledOrdered == phase = "done" /\ ~Rejected(sc) =>
                      \A v \in 1..sc.V : LET s == ScaledCanon(sc) IN (s.lb[v].inf = 0 /\ s.ub[v].inf = 0) => QLe(s.lb[v].q, s.ub[v].q)
InvEmit == phase = "done" /\ Emit => PrintT(ToJson(sc @@ [rejected |-> Rejected(sc)]))
=============================================================================
