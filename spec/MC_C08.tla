------------------------------ MODULE MC_C08 ------------------------------
(* Bounded instance for C08: every combination of constraint kinds over NNL  *)
(* non-linear and NLIN linear constraints, x mask x options x max_iterations *)
(* x method; the normalisation is checked against configured feasibility on  *)
(* a grid of constraint values.                                               *)
EXTENDS NormCons, TLC, Json

CONSTANTS NNL, NLIN, Methods, Emit
VARIABLES sc, phase
Kinds == {"eq", "lower", "upper", "two", "none"}
Init == /\ \E nk \in [1..NNL -> Kinds] : \E lk \in [1..NLIN -> Kinds] : \E m \in Methods :
           \E mask \in {"none", "fix2", "fix23"} : \E opt \in {"None", "empty", "dict"} : \E mi \in {0, 7} :
           \E vb \in {"mixed", "onesided"} : \E narrow \in BOOLEAN :
             /\ (narrow => NNL >= 1 /\ nk[1] = "two" /\ vb = "mixed")     \* the first non-linear constraint is a very narrow two-sided band
             /\ (vb = "onesided" => opt = "None" /\ mi = 0)
             \* the forwarding of options / max_iterations does not depend on the constraint kinds: varied for one combination
             /\ ((opt # "None" \/ mi # 0) => (\A i \in 1..NNL : nk[i] = "upper") /\ (\A i \in 1..NLIN : lk[i] = "upper"))
             /\ sc = [nl |-> nk, lin |-> lk, method |-> m, mask |-> mask, options |-> opt, maxit |-> mi, vb |-> vb, narrow |-> narrow]
        /\ phase = "init"
Next == phase = "init" /\ phase' = "done" /\ UNCHANGED sc
Cs == [i \in 1..(NNL + NLIN) |-> Bounds(IF i <= NNL THEN sc.nl[i] ELSE sc.lin[i - NNL])]
Grid == -2..3
\* (the normalisation depends on the kinds only: evaluated once per kind combination)
InvEquivalent == phase = "done" /\ sc.options = "None" /\ sc.maxit = 0 /\ sc.mask = "none" /\ sc.method = (CHOOSE m \in Methods : TRUE) =>
  LET cs == Cs  rows == Rows(cs) IN
    \A vals \in [1..(NNL + NLIN) -> Grid] : Feasible(cs, vals) <=> \A j \in 1..Len(rows) : RowOK(rows[j], vals)
InvRowCount == phase = "done" => NumRows(Cs) = Cardinality({i \in 1..(NNL + NLIN) : Kind(Cs[i]) \in {"eq", "lower", "upper"}})
                                                + 2 * Cardinality({i \in 1..(NNL + NLIN) : Kind(Cs[i]) = "two"})
InvEmit == phase = "done" /\ Emit => PrintT(ToJson(sc))
=============================================================================
