------------------------------- MODULE External -------------------------------
(* The external-process optimizer plug-in (plugins/optimizer/external.py): a     *)
(* parent (the ropt process) and a child (ropt_plugin_optimizer) exchanging      *)
(* JSON messages over two FIFOs, strictly request / answer.                       *)
(*                                                                                *)
(* Child: asks for "config", then "initial", then evaluations 1..K, then exits    *)
(* with status 0.  An answer "abort" makes it exit 0.  An error inside the        *)
(* algorithm (after ErrAt evaluations) is reported with an "error" request and    *)
(* the child exits 1 once it got its answer.  The child can be killed at any      *)
(* moment (Kill), the environment's fault action.                                 *)
(* Parent: loops while the child is alive: reads a request when it has no pending *)
(* answer, computes the answer (an evaluation may raise the user's exception, or  *)
(* end the optimisation: budget / too few realizations / abort -> answer "abort"  *)
(* with the exception stored), writes the answer (writes may have to be retried), *)
(* and after a written "abort" terminates the child and re-raises.                *)
(*                                                                                *)
(* CheckStatus = FALSE is the as-is behaviour: when the loop ends because the     *)
(* child is gone, the step returns normally whatever the child's exit status and  *)
(* whatever exception is still stored.                                            *)
EXTENDS Util

CONSTANTS K, RaiseAt, StopAt, ErrAt, MayKill, CheckStatus
VARIABLES cst, ck, c2p, p2c, pans, pexc, pst, outcome, killed, evals
evars == <<cst, ck, c2p, p2c, pans, pexc, pst, outcome, killed, evals>>

ChildAlive == cst \notin {"exit0", "exit1", "killed"}
\* ------------------------------------------------------------------ child
ChildSend ==
  /\ cst \in {"boot", "gotconfig", "run"} /\ c2p = <<>>
  /\ IF cst = "boot" THEN c2p' = <<"config">> /\ cst' = "waitconfig" /\ UNCHANGED ck
     ELSE IF cst = "gotconfig" THEN c2p' = <<"initial">> /\ cst' = "waitinitial" /\ UNCHANGED ck
     ELSE IF ErrAt > 0 /\ ck = ErrAt THEN c2p' = <<"error">> /\ cst' = "waiterr" /\ UNCHANGED ck
     ELSE IF ck = K THEN cst' = "exit0" /\ UNCHANGED <<c2p, ck>>
     ELSE c2p' = <<"eval">> /\ cst' = "waiteval" /\ ck' = ck + 1
  /\ UNCHANGED <<p2c, pans, pexc, pst, outcome, killed, evals>>
ChildRecv ==
  /\ cst \in {"waitconfig", "waitinitial", "waiteval", "waiterr"} /\ p2c # <<>>
  /\ LET a == Head(p2c) IN
       cst' = IF cst = "waiterr" THEN "exit1"
              ELSE IF a = "abort" THEN "exit0"
              ELSE IF cst = "waitconfig" THEN "gotconfig" ELSE "run"
  /\ p2c' = Tail(p2c)
  /\ UNCHANGED <<ck, c2p, pans, pexc, pst, outcome, killed, evals>>
\* the child notices that its parent is gone and exits (liveness probe)
ChildOrphan ==
  /\ ChildAlive /\ pst = "returned"
  /\ cst' = "exit0" /\ UNCHANGED <<ck, c2p, p2c, pans, pexc, pst, outcome, killed, evals>>
Kill ==
  /\ MayKill /\ ~killed /\ ChildAlive /\ pst = "loop"
  /\ cst' = "killed" /\ killed' = TRUE
  /\ UNCHANGED <<ck, c2p, p2c, pans, pexc, pst, outcome, evals>>
\* ------------------------------------------------------------------ parent
\* read one request (if any) and compute the answer
ParentHandle ==
  /\ pst = "loop" /\ ChildAlive /\ pans = "none" /\ c2p # <<>>
  /\ LET r == Head(c2p) IN
       /\ c2p' = Tail(c2p)
       /\ IF r = "config" \/ r = "initial" THEN pans' = "data" /\ UNCHANGED <<pexc, evals>>
          ELSE IF r = "error" THEN pans' = "abort" /\ pexc' = "error" /\ UNCHANGED evals
          ELSE /\ evals' = evals + 1
               /\ IF RaiseAt = evals + 1 THEN pans' = "abort" /\ pexc' = "user"          \* the user's evaluator raises
                  ELSE IF StopAt = evals + 1 THEN pans' = "abort" /\ pexc' = "stop"       \* budget / too few / user abort
                  ELSE pans' = "data" /\ UNCHANGED pexc
  /\ UNCHANGED <<cst, ck, p2c, pst, outcome, killed>>
\* the write succeeds (a failed non-blocking write is a stuttering step)
ParentWrite ==
  /\ pst = "loop" /\ ChildAlive /\ pans # "none"
  /\ p2c' = Append(p2c, pans) /\ pans' = "none"
  /\ IF pexc # "none" THEN pst' = "terminate" ELSE UNCHANGED pst
  /\ UNCHANGED <<cst, ck, c2p, pexc, outcome, killed, evals>>
\* after a written "abort": SIGTERM, reap, re-raise
ParentTerminate ==
  /\ pst = "terminate"
  /\ cst' = IF ChildAlive THEN "killed" ELSE cst
  /\ pst' = "returned" /\ outcome' = pexc
  /\ UNCHANGED <<ck, c2p, p2c, pans, pexc, killed, evals>>
\* the loop condition fails: the child is gone
ParentLoopExit ==
  /\ pst = "loop" /\ ~ChildAlive
  /\ pst' = "returned"
  /\ outcome' = IF ~CheckStatus THEN "finished"
                ELSE IF pexc # "none" THEN pexc
                ELSE IF cst = "exit0" THEN "finished" ELSE "error"
  /\ UNCHANGED <<cst, ck, c2p, p2c, pans, pexc, killed, evals>>

EInit == /\ cst = "boot" /\ ck = 0 /\ c2p = <<>> /\ p2c = <<>> /\ pans = "none" /\ pexc = "none"
         /\ pst = "loop" /\ outcome = "none" /\ killed = FALSE /\ evals = 0
ChildStep == ChildSend \/ ChildRecv \/ ChildOrphan
ParentStep == ParentHandle \/ ParentWrite \/ ParentTerminate \/ ParentLoopExit
ENext == ChildStep \/ ParentStep \/ Kill
ESpec == EInit /\ [][ENext]_evars /\ WF_evars(ChildStep) /\ WF_evars(ParentStep)

\* ---- properties (C20)
Returned == pst = "returned"
DeathIsNeverSuccess == Returned /\ cst \in {"killed", "exit1"} /\ (killed \/ cst = "exit1") => outcome # "finished"
NoOrphanAfterReturn == Returned /\ outcome # "none" => (ChildAlive => FALSE) \/ outcome = "none"
UserExceptionPropagates == Returned /\ pexc = "user" => outcome = "user"
StopCodePropagates == Returned /\ pexc = "stop" => outcome = "stop"
SuccessMeansComplete == Returned /\ outcome = "finished" => cst = "exit0" /\ (ErrAt = 0 => evals = K) /\ pexc = "none"
EventuallyReturns == <>Returned
=============================================================================
