------------------------------- MODULE Bounds -------------------------------
(* Perturbation post-processing (ensemble_evaluator/_gradient.py:_apply_bounds *)
(* and _perturb_variables; config/enopt/_gradient_config.py magnitudes).       *)
(* All quantities are integers in units of 1/4; |b| >= INF encodes an          *)
(* infinite bound.                                                             *)
EXTENDS Util

INF == 1000000
IsInf(b) == b >= INF \/ b <= -INF
Inside(v, lb, ub) == lb <= v /\ v <= ub
Clip(v, lb, ub) == IF v < lb THEN lb ELSE IF v > ub THEN ub ELSE v

\* magnitude in force: absolute value, or the configured fraction fnum/fden of the bound range
Magnitude(ptype, mag, fnum, fden, lb, ub) ==
  IF ptype = "abs" THEN mag ELSE (fnum * (ub - lb)) \div fden
Raw(x, m, s) == x + m * s

\* ---- implementation-shaped: MIRROR_REPEAT = 3 rounds of reflection on the side first violated, then clip
\* (one reflection at the side first violated, a second one if that overshoots the opposite bound; written without LET so
\*  that proofs/KernelProofs.tla can carry the very same text)
MirrorLow(v, lb, ub)  == IF v < lb THEN (IF 2 * lb - v > ub THEN 2 * ub - (2 * lb - v) ELSE 2 * lb - v)
                         ELSE (IF v > ub THEN 2 * ub - v ELSE v)
MirrorHigh(v, lb, ub) == IF v > ub THEN (IF 2 * ub - v < lb THEN 2 * lb - (2 * ub - v) ELSE 2 * ub - v)
                         ELSE (IF v < lb THEN 2 * lb - v ELSE v)
ApplyImpl(v, lb, ub, type) ==
  CASE type = "none"     -> v
    [] type = "truncate" -> Clip(v, lb, ub)
    [] type = "mirror"   ->
         IF v < lb THEN Clip(MirrorLow(MirrorLow(MirrorLow(v, lb, ub), lb, ub), lb, ub), lb, ub)
         ELSE IF v > ub THEN Clip(MirrorHigh(MirrorHigh(MirrorHigh(v, lb, ub), lb, ub), lb, ub), lb, ub)
         ELSE v

\* ---- declarative: the property's allowed-output relation
Reflect(v, lb, ub) == IF v < lb THEN 2 * lb - v ELSE IF v > ub THEN 2 * ub - v ELSE v
Allowed(v, lb, ub, type, out) ==
  IF Inside(v, lb, ub) \/ type = "none" THEN out = v
  ELSE IF type = "truncate" THEN out = Clip(v, lb, ub)
  ELSE IF Inside(Reflect(v, lb, ub), lb, ub) THEN out = Reflect(v, lb, ub)
  \* the reflected value violates the opposite bound: reflected there as well
  ELSE IF Inside(Reflect(Reflect(v, lb, ub), lb, ub), lb, ub) THEN out = Reflect(Reflect(v, lb, ub), lb, ub)
  ELSE Inside(out, lb, ub)                 \* overshoot of more than two bound widths: any value within the bounds
=============================================================================
