CONSTANTS
  NH = 2
  NO = 2
INIT TInit
NEXT TNext
INVARIANT Report
INVARIANT Safe
CHECK_DEADLOCK FALSE
