CONSTANTS
  NMax = 4
  D = 12
  Family = "perm"
  Emit = TRUE
INIT Init
NEXT Next
INVARIANT InvCVaR
INVARIANT InvTail
INVARIANT InvEmpty
INVARIANT InvEmit
CHECK_DEADLOCK FALSE
