------------------------------ MODULE MC_C17 ------------------------------
EXTENDS SamplerLayout, TLC, Json
CONSTANTS AsIs, Emit, RMax, PMax
VARIABLES sc, S, phase
Masks(V) == {m \in [1..V -> BOOLEAN] : \E v \in 1..V : m[v]}
Init == /\ \E R \in 1..RMax : \E P \in 1..PMax : \E V \in 1..3 : \E mask \in Masks(V) : \E shared \in BOOLEAN :
           \E method \in {"norm", "uniform", "truncnorm", "sobol", "halton", "lhs", "default"} : \E two \in BOOLEAN :
             /\ (two => V >= 2 /\ \E v \in 1..V : ~mask[v])          \* a second sampler handles the complementary variables
             /\ sc = [R |-> R, P |-> P, V |-> V, mask |-> mask, shared |-> shared, method |-> method, two |-> two]
        /\ S = <<>> /\ phase = "init"
Next == /\ phase = "init" /\ phase' = "done" /\ UNCHANGED sc
        /\ S' = IF AsIs THEN AsIsLayout(sc.R, sc.P, sc.mask, sc.shared) ELSE Layout(sc.R, sc.P, sc.mask, sc.shared)
InvZero == phase = "done" => ZeroOutside(S, sc.mask)
InvPoint == phase = "done" => PointIntegrity(S, sc.mask)
InvShared == phase = "done" /\ sc.shared => SharedIdentical(S)
InvDistinct == phase = "done" /\ ~sc.shared => DistinctPoints(S, sc.mask)
InvEmit == phase = "done" /\ Emit => PrintT(ToJson(sc))
=============================================================================
