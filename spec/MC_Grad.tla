------------------------------ MODULE MC_Grad ------------------------------
(* Bounded instances for C02 (gradient exact on affine ensembles) and C03    *)
(* (failed realizations / perturbations excluded as if absent).              *)
(*   Family "c02": catalogue of masks, designs, slopes, weights, estimator   *)
(*                 and filter maps, a few failure patterns, merged or not    *)
(*   Family "c03": EVERY subset of the R + R*P evaluations fails, every NaN  *)
(*                 column, both thresholds, filter none/sort/cvar, mean/std  *)
EXTENDS Ensemble, TLC, Json

CONSTANTS Family, RSet, PSet, MaskSet, DesSet, SaltSet, EstSet, FltSet, WSet, Emit
VARIABLES sc, out, phase

V == 3
X == <<1, -1, 2>>
Mask(m) == CASE m = 1 -> <<TRUE, TRUE, TRUE>> [] m = 2 -> <<TRUE, FALSE, TRUE>>
             [] m = 3 -> <<FALSE, FALSE, TRUE>> [] m = 4 -> <<FALSE, TRUE, TRUE>>
\* integer designs: sample[p][v]
Des(d, p, v) == CASE d = 1 -> (IF v = ((p - 1) % V) + 1 THEN (IF p > V THEN -1 ELSE 1) ELSE 0)          \* +-identity
                  [] d = 2 -> (IF p <= V THEN (IF v = p THEN 1 ELSE 0) ELSE -1)                          \* simplex
                  [] d = 3 -> p                                                                          \* rank one
                  [] d = 4 -> (IF v = ((p - 1) % V) + 1 THEN 2 ELSE (IF v = (p % V) + 1 THEN 1 ELSE 0))  \* banded
Design(d, R, P, shared) == [r \in 1..R |-> [p \in 1..P |-> [v \in 1..V |->
                               Des(d, IF shared THEN p ELSE ((p + r - 2) % P) + 1, v) * (IF shared \/ r % 2 = 1 THEN 1 ELSE -1)]]]
Slopes(R, salt, ident) == [r \in 1..R |-> [f \in 1..3 |-> [v \in 1..V |->
                             ((3 * (IF ident THEN 1 ELSE r) + 2 * f + v * v + salt) % 5) - 2]]]
Offs(R) == [r \in 1..R |-> [f \in 1..3 |-> ((r + f) % 3) - 1]]
RW(R, w) == CASE w = 1 -> [r \in 1..R |-> 1] [] w = 2 -> [r \in 1..R |-> <<1, 2, 0, 1>>[r]]
              [] w = 3 -> [r \in 1..R |-> <<2, 1, 3, 1>>[r]]
              [] w = 4 -> [r \in 1..R |-> <<3, -1, 2, 1>>[r]]        \* a negative weight (the sum stays positive)
EstOf(i) == <<IF i \in {2,4} THEN "std" ELSE "mean", IF i \in {3,4} THEN "std" ELSE "mean", IF i \in {3} THEN "std" ELSE "mean">>
FltOf(i) == CASE i = 1 -> <<-1, -1, -1>> [] i = 2 -> <<0, -1, -1>> [] i = 3 -> <<1, 1, -1>> [] i = 4 -> <<-1, 0, 1>>
              [] i = 5 -> <<-1, -1, 2>> [] i = 6 -> <<0, 3, 3>>          \* the constraint flavours (CVaR / sort on the constraint)

NanPOf(i, R, P) == [r \in 1..R |-> [p \in 1..P |->
                     CASE i = 0 -> 0
                       [] i = 1 -> (IF r = 1 /\ p = 1 THEN 1 ELSE 0)
                       [] i = 2 -> (IF r = 2 /\ p <= 2 THEN 2 ELSE 0)
                       [] i = 3 -> (IF r = R /\ p = P THEN 3 ELSE 0)]]

InitC02 == \E R \in RSet : \E P \in PSet : \E m \in MaskSet : \E d \in DesSet : \E shared \in BOOLEAN :
           \E salt \in SaltSet : \E e \in EstSet : \E fi \in FltSet : \E w \in WSet :
           \E nf \in 0..1 : \E np \in 0..3 : \E pms \in {1, P - 1, P} : \E merged \in BOOLEAN : \E ident \in BOOLEAN :
             /\ (merged => e = 1)                  \* the stddev estimator rejects merged gradients at configuration time
             \* a negative realization weight has an agreed meaning for the plain weighted mean only (no filter, no deviation,
             \* per-realization estimation): with anything else the code and the kernel disagree in every direction - not pursued
             /\ (w = 4 => e = 1 /\ fi = 1 /\ ~merged)
             /\ (ident => merged)                  \* identical realizations only matter for merged estimation
             /\ (merged => shared \/ ident)        \* the statement covers merged estimation only in these cases
             \* (a zero objective weight where the filter keyed on that objective is not in use: its gradient row is still reported)
             /\ sc = [V |-> V, mask |-> Mask(m), x |-> X, R |-> R, P |-> P, rw |-> RW(R, w),
                      ow |-> IF fi \in {1, 2} /\ w = 2 THEN <<1, 0>> ELSE <<3, 1>>,
                      est |-> EstOf(e), flt |-> FltOf(fi), a |-> Slopes(R, salt, ident), b |-> Offs(R),
                      minsucc |-> 1, pms |-> pms, merged |-> merged, shared |-> shared, ident |-> ident,
                      nanF |-> [r \in 1..R |-> IF nf = 1 /\ r = 1 THEN 2 ELSE 0], nanP |-> NanPOf(np, R, P),
                      design |-> Design(d, R, P, shared),
                      nsamp |-> IF (d + m) % 2 = 0 THEN 2 ELSE 1]      \* two samplers on disjoint variable sets

\* exhaustive fault enumeration: design rows pairwise independent on the two free variables
Des3(p, v) == CASE p = 1 -> <<1, 0, 0>>[v] [] p = 2 -> <<0, 0, 1>>[v] [] p = 3 -> <<1, 0, 1>>[v]
InitC03 == \E R \in RSet : \E P \in PSet :
           \E fF \in SUBSET (1..R) : \E fP \in SUBSET ((1..R) \X (1..P)) : \E nc \in 1..3 :
           \E ms \in 0..R : \E pms \in 1..P : \E fi \in {1, 2, 3, 5} : \E e \in {1, 2} : \E mg \in BOOLEAN :
             /\ (fF = {} /\ fP = {} => nc = 1)
             /\ (mg => e = 1 /\ fi = 1)                       \* merged estimation: mean estimator, no filter
             /\ sc = [V |-> V, mask |-> Mask(2), x |-> X, R |-> R, P |-> P, rw |-> RW(R, 3), ow |-> <<3, 1>>,
                      est |-> EstOf(e), flt |-> FltOf(fi), a |-> Slopes(R, 1, FALSE), b |-> Offs(R),
                      minsucc |-> ms, pms |-> pms, merged |-> mg, shared |-> TRUE, ident |-> FALSE,
                      nanF |-> [r \in 1..R |-> IF r \in fF THEN nc ELSE 0],
                      nanP |-> [r \in 1..R |-> [p \in 1..P |-> IF <<r, p>> \in fP THEN ((nc + p) % 3) + 1 ELSE 0]],
                      design |-> [r \in 1..R |-> [p \in 1..P |-> [v \in 1..V |-> Des3(p, v)]]],
                      nsamp |-> IF Cardinality(fF) % 2 = 0 THEN 2 ELSE 1]

Init == /\ IF Family = "c02" THEN InitC02 ELSE InitC03
        /\ out = [st |-> "none"] /\ phase = "init"
Compute == phase = "init" /\ out' = GradEval(sc) /\ phase' = "done" /\ UNCHANGED sc
Next == Compute

Shift(x, v, d) == [w \in 1..V |-> IF w = v THEN x[w] + d ELSE x[w]]
\* the reported quantity is the exact derivative of the ensemble function (weights in force held fixed):
\* mean: F(x + e_v) - F(x) = g_v ;  std: Var(x + e_v) - Var(x - e_v) = 4 * sigma * g_v   (Var is quadratic in x)
InvDerivative == phase = "done" /\ out.st = "ok" =>
  \A f \in 1..3 : \A v \in 1..V : out.grad[f][v].st = "val" =>
     LET u == out.units[f]
         cp == ColsAt(sc, Shift(sc.x, v, 1))[f]
         cm == ColsAt(sc, Shift(sc.x, v, -1))[f]
         c0 == ColsAt(sc, sc.x)[f]
     IN IF sc.est[f] = "mean" THEN QEq(QSub(MeanQ(u, cp), MeanQ(u, c0)), out.grad[f][v].q)
        ELSE QEq(QSub(VarQ(u, cp), VarQ(u, cm)), QMul(<<4, 1>>, out.grad[f][v].q))
InvFixedZero == phase = "done" /\ out.st = "ok" =>
  \A f \in 1..3 : \A v \in 1..V : ~sc.mask[v] <=> out.grad[f][v].st = "fixed"
\* failed members and zero-weight members never contribute
InvContrib == phase = "done" /\ out.st = "ok" => \A f \in 1..3 : out.contrib[f] \cap FailedG(sc) = {}
\* C03: the flags are exactly the iff-characterisation
InvFlags == phase = "done" =>
  /\ \A r \in 1..sc.R : r \in FailedF(sc) <=> sc.nanF[r] # 0
  /\ \A r \in 1..sc.R : r \in FailedG(sc) <=> (sc.nanF[r] # 0 \/ Cardinality({p \in 1..sc.P : sc.nanP[r][p] = 0}) < sc.pms)
InvEmit == phase = "done" /\ Emit => PrintT(ToJson(sc @@ [expect |-> out.st, fam |-> Family]))
=============================================================================
