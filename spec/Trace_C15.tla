----------------------------- MODULE Trace_C15 -----------------------------
(* Trace validator for C15 / C14: the recorded event stream of a real plan    *)
(* run is replayed against Plan.tla.  Deliveries and step returns are logged; *)
(* Loop / EnterNested / Call / EvalDone / Finish are silent model steps taken *)
(* between them (the model is deterministic given the scenario).  The         *)
(* validator is total: a mismatch names what the model expected.              *)
EXTENDS Plan, TLC, Json, IOUtils

Traces == JsonDeserialize(IOEnv.TRACE_FILE)
VARIABLES tid, l, verdict
tvars == <<tid, l, verdict>>

Tr == Traces[tid]
Cfg(e) == [kind |-> e.kind, K |-> e.K, Kin |-> e.Kin, failAt |-> e.failAt, maxfun |-> e.maxfun,
           abEm |-> e.abEm, abRc |-> e.abRc, abCall |-> e.abCall, twoctx |-> e.twoctx, redir |-> e.redir]

TInit == /\ tid \in 1..Len(Traces) /\ l = 2 /\ verdict = "ok"
         /\ cfg = Cfg(Traces[tid][1])
         /\ m = NewStep(1, 1, IF cfg.kind = "eval" THEN "eval" ELSE "opt", cfg.K, cfg.kind \in {"nested", "renest"})
         /\ stack = <<>> /\ stream = <<>> /\ emc = 0 /\ callc = 0
         /\ aborted = <<FALSE, FALSE, FALSE>> /\ rets = <<>> /\ refused = <<>>

Silent == /\ verdict = "ok" /\ (Loop \/ EnterNested \/ Call \/ EvalDone \/ Finish) /\ UNCHANGED tvars

Stop(v) == verdict' = v /\ UNCHANGED <<tid, l>> /\ UNCHANGED vars

\* the model is about to deliver: the next logged event must be that delivery
TDeliver ==
  /\ verdict = "ok" /\ m.st = "emit"
  /\ LET want == ReceiversOf(m.level, m.outer)[m.di + 1] IN
     IF l > Len(Tr) THEN Stop("missing_" \o m.em)
     ELSE LET e == Tr[l] IN
          IF e.ev # "Deliver" THEN Stop("missing_" \o m.em)
          ELSE IF e.etype # m.em \/ e.step # m.step THEN Stop("expected_" \o m.em \o "_got_" \o e.etype)
          ELSE IF e.recv # want THEN Stop(IF e.recv.kind = "o" /\ want.kind = "h" THEN "observer_before_handler" ELSE "delivery_order_or_duplicate")
          ELSE Deliver /\ l' = l + 1 /\ UNCHANGED <<tid, verdict>>
TReturn ==
  /\ verdict = "ok" /\ m.st = "ret"
  /\ IF l > Len(Tr) THEN Stop("missing_step_return")
     ELSE LET e == Tr[l] IN
          IF e.ev = "Deliver" THEN Stop("event_after_FINISHED_STEP")
          ELSE IF e.ev # "Return" THEN Stop("missing_step_return")
          ELSE IF e.code # m.exit THEN Stop("exit_code_expected_" \o m.exit \o "_got_" \o e.code)
          ELSE Return /\ l' = l + 1 /\ UNCHANGED <<tid, verdict>>
TEnd ==
  /\ verdict = "ok" /\ m.st = "end"
  /\ IF l > Len(Tr) THEN Stop("missing_end_record")
     ELSE LET e == Tr[l] IN
          IF e.ev # "End" THEN Stop("events_after_the_run_ended")
          ELSE IF e.aborted # aborted THEN Stop("plan_aborted_flags")
          ELSE IF e.refused # Len(refused) THEN Stop("step_after_abort_not_refused")
          ELSE l' = l + 1 /\ m' = [m EXCEPT !.st = "checked"] /\ UNCHANGED <<tid, verdict, cfg, stack, stream, emc, callc, aborted, rets, refused>>

TNext == Silent \/ TDeliver \/ TReturn \/ TEnd
Report == (verdict # "ok" \/ m.st = "checked") =>
            PrintT(<<IF verdict = "ok" THEN "ACCEPT" ELSE "REJECT", tid, l, verdict>>)
\* every accepted prefix satisfies the plan invariants as well
Safe == verdict = "ok" => WellBracketed /\ DeliveryOrder /\ AbortLatches
=============================================================================
