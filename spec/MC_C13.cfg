CONSTANTS
  VMax = 3
  Emit = TRUE
INIT Init
NEXT Next
INVARIANT InvViolationIsDistance
INVARIANT InvOutsidePositive
INVARIANT InvFromDiffs
INVARIANT InvEmit
CHECK_DEADLOCK FALSE
