------------------------------ MODULE MC_C07 ------------------------------
EXTENDS ScipyBackend, TLC, Json
CONSTANT Emit
InvEmit == Len(hist) = L /\ Emit =>
             PrintT(ToJson([cls |-> Class, speculative |-> Speculative, split |-> Split, hist |-> hist]))
=============================================================================
