----------------------------- MODULE Trace_C04 -----------------------------
(* Total trace validator for C04.  Every event carries the scenario inputs   *)
(* and what the code reported; the verdict names the first failing clause.   *)
EXTENDS Filters, TLC, Json, IOUtils

Traces == JsonDeserialize(IOEnv.TRACE_FILE)
VARIABLES tid, l, verdict
vars == <<tid, l, verdict>>

KeyOf(e, i) == IF e.multi THEN e.val[i] + 2 * e.o2[i]
               ELSE CASE e.fl = "obj" -> e.val[i]
                      [] e.fl = "objneg" -> -e.val[i]
                      [] e.fl = "le"  -> e.val[i] - e.target
                      [] e.fl = "ge"  -> e.target - e.val[i]
                      [] e.fl = "eq"  -> Abs(e.val[i] - e.target)

OnGrid(w, Dn) == IsQ(w) /\ (w.n * Dn) % w.d = 0
Units(w, Dn)  == (w.n * Dn) \div w.d

Check(e) ==
  LET N   == e.n
      F   == {i \in 1..N : e.failed[i]}
      S   == Succ(N, F)
      n   == Cardinality(S)
      key == [i \in 1..N |-> KeyOf(e, i)]
      Dn  == e.D * n
      full == (e.k * n) \div e.D
  IN IF S = {} THEN (IF e.outcome \in {"toofew", "nofunctions"} THEN "ok" ELSE "empty_success_set_outcome")
     ELSE IF e.outcome # "ok" THEN "outcome_not_ok"
     ELSE IF Len(e.w) # N THEN "weight_shape"
     ELSE IF \E i \in 1..N : e.w[i].k # "q" THEN "weight_not_finite"
     ELSE IF \E i \in 1..N : e.w[i].neg THEN "weight_negative"
     ELSE IF \E i \in F : ~e.w[i].zero THEN "failed_member_weighted"
     ELSE IF \E i \in 1..N : ~OnGrid(e.w[i], Dn) THEN "weight_off_grid"
     ELSE LET u == [i \in 1..N |-> Units(e.w[i], Dn)] IN
          IF ~IsCVaR(N, u, key, F, e.k, e.D) THEN "not_cvar_tail_mass"
          ELSE IF \E i \in S : Worse(key, S, i) > full /\ ~e.w[i].zero THEN "nonzero_beyond_tail"
          ELSE IF e.via = "e2e" /\ ~ObsEq(e.value, TailMean(N, u, e.val)) THEN "value_not_tail_mean"
          ELSE "ok"

Init == tid \in 1..Len(Traces) /\ l = 1 /\ verdict = "ok"
Step == /\ verdict = "ok" /\ l <= Len(Traces[tid])
        /\ verdict' = IF Traces[tid][l].ev \notin {"CVaR"} THEN "unknown_event" ELSE Check(Traces[tid][l])
        /\ l' = IF verdict' = "ok" THEN l + 1 ELSE l
        /\ UNCHANGED tid
Next == Step
Report == (verdict # "ok" \/ l = Len(Traces[tid]) + 1) =>
            PrintT(<<IF verdict = "ok" THEN "ACCEPT" ELSE "REJECT", tid, l, verdict>>)
=============================================================================
