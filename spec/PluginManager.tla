---------------------------- MODULE PluginManager ----------------------------
(* Plug-in registry of ropt (plugins/_manager.py).  A registry (one per manager *)
(* and plug-in type) is a sequence of entries [name, plugin]; name is the       *)
(* lower-cased registered name.  A plug-in is a record                          *)
(*   [id, methods (set of lower-case method names), discover (BOOLEAN)].        *)
(* Requests carry names already split: [plug |-> lower-cased plug-in name or "" *)
(* for a bare method, meth |-> lower-cased method].                             *)
EXTENDS Util

Names(reg) == {reg[i].name : i \in 1..Len(reg)}

\* add_plugin: duplicates (case-insensitive) are rejected and leave the registry unchanged
AddResult(reg, name) == IF name \in Names(reg) THEN "ConfigError" ELSE "ok"
AddReg(reg, name, plugin, prio) ==
  IF name \in Names(reg) THEN reg
  ELSE IF prio THEN <<[name |-> name, plugin |-> plugin]>> \o reg
  ELSE Append(reg, [name |-> name, plugin |-> plugin])

\* get_plugin
Lookup(reg, plug, meth) ==
  IF plug # ""
  THEN IF \E i \in 1..Len(reg) : reg[i].name = plug /\ meth \in reg[i].plugin.methods
       THEN (CHOOSE e \in {reg[i] : i \in 1..Len(reg)} : e.name = plug).plugin.id
       ELSE "ConfigError"
  ELSE LET cands == {i \in 1..Len(reg) : reg[i].plugin.discover /\ meth \in reg[i].plugin.methods}
       IN IF cands = {} THEN "ConfigError"
          ELSE reg[CHOOSE i \in cands : \A j \in cands : i <= j].plugin.id
\* the test universe shared by the bounded instance and the trace validator
\* ("q" and "k" are two spellings of one method name that differ in case only: the plug-ins themselves decide about the
\*  case of METHOD names, the manager hands the name through as given)
TestPlug(i) == CASE i = 1 -> [id |-> "P1", methods |-> {"a", "b", "s", "k"}, discover |-> TRUE]
                 [] i = 2 -> [id |-> "P2", methods |-> {"b", "c", "q"}, discover |-> TRUE]
                 [] i = 3 -> [id |-> "P3", methods |-> {"a", "c"}, discover |-> FALSE]
Lower(n) == CASE n = "X" -> "x" [] n = "Y" -> "y" [] n = "Z" -> "z" [] OTHER -> n
IsSupported(reg, plug, meth) == Lookup(reg, plug, meth) # "ConfigError"
=============================================================================
