------------------------------ MODULE MC_C09 ------------------------------
(* Bounded instance for C09: masks over three variables x request scripts x   *)
(* nested or not x one or two samplers; the model keeps `fixed` and checks    *)
(* that completion never touches masked-out entries.                           *)
EXTENDS FixedVars, TLC, Json
CONSTANTS L, Emit
VARIABLES sc, fixed, k, sent
X0 == <<1, -2, 3>>
Masks == {<<TRUE, TRUE, TRUE>>, <<TRUE, FALSE, TRUE>>, <<FALSE, FALSE, TRUE>>, <<FALSE, TRUE, TRUE>>, <<TRUE, TRUE, FALSE>>}
Reqs == {[kind |-> kd, pt |-> p] : kd \in {"f", "fg", "g"}, p \in 1..2}
Init == /\ \E mask \in Masks : \E nested \in BOOLEAN : \E two \in BOOLEAN : \E script \in [1..L -> Reqs] : \E backend \in {"script", "scipy"} :
             /\ (nested => \E v \in 1..3 : ~mask[v]) /\ (two => FreeCount(mask) >= 2)
             /\ (backend = "scipy" => ~nested)
             /\ \E row \in BOOLEAN :        \* the back-end hands its points over as one-row matrices (population style)
                  /\ (row => backend = "script")
                  /\ sc = [mask |-> mask, nested |-> nested, two |-> two, script |-> script, backend |-> backend, row |-> row]
        /\ fixed = X0 /\ k = 0 /\ sent = <<>>
\* free values requested at pool point p
XF(p, mask) == [i \in 1..FreeCount(mask) |-> IF p = 1 THEN 1 ELSE 4 - i]
\* the inner optimisation moves the complementary variables
Inner(vec, mask, n) == [v \in 1..3 |-> IF mask[v] THEN vec[v] ELSE vec[v] + n]
Next == /\ k < L /\ k' = k + 1 /\ UNCHANGED sc
        /\ LET xf == XF(sc.script[k + 1].pt, sc.mask)
               c1 == Complete(fixed, sc.mask, xf)
               c2 == IF sc.nested THEN Inner(c1, sc.mask, k + 1) ELSE c1
           IN fixed' = c2 /\ sent' = Append(sent, c2)
InvFixedOnlyByNested == \A i \in 1..Len(sent) : ~sc.nested => AgreesOutside(sent[i], X0, sc.mask)
InvFreeAsRequested == \A i \in 1..Len(sent) : \A v \in 1..3 : sc.mask[v] =>
                         sent[i][v] = XF(sc.script[i].pt, sc.mask)[Cardinality({w \in 1..v : sc.mask[w]})]
InvEmit == k = L /\ Emit => PrintT(ToJson(sc))
=============================================================================
