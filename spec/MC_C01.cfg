CONSTANTS
  RSet = {2, 3}
  VCSet = {1}
  WSet = {1, 2, 4}
  OSet = {2, 3}
  EstSet = {1, 2, 3}
  Emit = TRUE
INIT Init
NEXT Next
INVARIANT InvReduce
INVARIANT InvVar
INVARIANT InvMeanRange
INVARIANT InvEmit
CHECK_DEADLOCK FALSE
