CONSTANTS
  L = 2
  Emit = TRUE
INIT Init
NEXT Next
INVARIANT InvFixedOnlyByNested
INVARIANT InvFreeAsRequested
INVARIANT InvEmit
CHECK_DEADLOCK FALSE
