CONSTANTS
  Emit = TRUE
INIT Init
NEXT Next
INVARIANT InvWeights
INVARIANT InvClamped
INVARIANT InvBroadcast
INVARIANT InvBoundsOrdered
INVARIANT InvEmit
CHECK_DEADLOCK FALSE
