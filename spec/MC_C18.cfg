CONSTANTS
  Emit = TRUE
INIT Init
NEXT Next
INVARIANT InvWeights
INVARIANT InvClamped
INVARIANT InvBroadcast
INVARIANT InvBoundsOrdered
INVARIANT InvRelativeRange
INVARIANT InvScaledOrdered
INVARIANT InvEmit
CHECK_DEADLOCK FALSE
