------------------------------ MODULE MC_C10 ------------------------------
(* Bounded instance for C10: value x bounds (finite/infinite) x boundary type *)
(* x perturbation type x magnitude, against every sample -SMax..SMax          *)
(* (overshoots of several bound widths).  Units of 1/4.                        *)
EXTENDS Bounds, TLC, Json

CONSTANTS SMax, Emit
VARIABLES sc, out, phase

Grid == {-8, -4, 0, 4, 8}                     \* -2..2 in units of 1/4
Init == /\ \E lb \in Grid \cup {-INF} : \E ub \in Grid \cup {INF} : \E x \in Grid \cup {-6, 2} :
           \E type \in {"none", "truncate", "mirror"} : \E ptype \in {"abs", "rel"} : \E mi \in 1..2 :
             /\ lb <= x /\ x <= ub /\ lb < ub
             /\ (ptype = "rel" => ~IsInf(lb) /\ ~IsInf(ub))
             /\ sc = [x |-> x, lb |-> lb, ub |-> ub, type |-> type, ptype |-> ptype,
                      mag |-> IF mi = 1 THEN 2 ELSE 4,              \* absolute 1/2 or 1
                      fnum |-> 1, fden |-> IF mi = 1 THEN 2 ELSE 4] \* relative 1/2 or 1/4 of the range
        /\ out = <<>> /\ phase = "init"

M == Magnitude(sc.ptype, sc.mag, sc.fnum, sc.fden, sc.lb, sc.ub)
Samples == [i \in 1..(2 * SMax + 1) |-> i - SMax - 1]
Compute == /\ phase = "init"
           /\ out' = [i \in 1..(2 * SMax + 1) |-> ApplyImpl(Raw(sc.x, M, Samples[i]), sc.lb, sc.ub, sc.type)]
           /\ phase' = "done" /\ UNCHANGED sc
Next == Compute

InvAllowed == phase = "done" => \A i \in DOMAIN out : Allowed(Raw(sc.x, M, Samples[i]), sc.lb, sc.ub, sc.type, out[i])
InvInBounds == phase = "done" /\ sc.type # "none" => \A i \in DOMAIN out : Inside(out[i], sc.lb, sc.ub)
InvInsideUntouched == phase = "done" => \A i \in DOMAIN out :
                        Inside(Raw(sc.x, M, Samples[i]), sc.lb, sc.ub) => out[i] = Raw(sc.x, M, Samples[i])
InvEmit == phase = "done" /\ Emit => PrintT(ToJson(sc @@ [smax |-> SMax]))
=============================================================================
