------------------------------- MODULE Basic -------------------------------
(* BasicOptimizer (plan/_basic_optimizer.py) as its user sees it: one object,    *)
(* callbacks set on it, run() called once or several times.  Every run builds a  *)
(* fresh plan (optimizer step + "best" tracker), registers the callbacks that    *)
(* were set and not yet registered as observers on the shared context, runs the  *)
(* step and reports the tracked best, its variables and the exit code.           *)
(*                                                                               *)
(* The optimizer is a script of evaluation requests.  Per request (code order:   *)
(* optimization/_optimizer.py _optimizer_callback, _run_evaluations;             *)
(* plugins/plan/optimizer.py _signal_evaluation, _finish):                       *)
(*   Budget        max_functions check before anything is evaluated              *)
(*   CallAbortCb   START_EVALUATION reaches the observers: one call per          *)
(*                 registered abort callback, in order; True aborts (USER_ABORT) *)
(*   Evaluate      the user evaluator is called once (function row and/or        *)
(*                 perturbation rows)                                            *)
(*   Track         FINISHED_EVALUATION: the tracker handler sees the results     *)
(*   CallResCb     ... then one call per registered results callback             *)
(*   AfterEval     too few realizations end the run after the delivery; else the *)
(*                 completed-function count grows                                *)
(*   ScriptEnd     the optimizer returns                                         *)
(*   Finish        FINISHED_OPTIMIZER_STEP, the run returns                      *)
(*                                                                               *)
(* cfg: [script |-> Seq([kind: "F"|"G"|"FG", obj: Nat, feas: BOOLEAN, fail:      *)
(*       BOOLEAN]), abortAt |-> n-th abort-callback call returns True (0 never), *)
(*       maxfun |-> budget (0 none), runs |-> number of run() calls,             *)
(*       nA |-> abort callbacks set before the first run, nR |-> results         *)
(*       callbacks set before the first run, lateR |-> results callbacks set     *)
(*       between the first and the second run, redir |-> optimizer.stdout set,   *)
(*       tolnone |-> constraint_tolerance=None (no feasibility filtering)]       *)
(* log: what the user can observe (callback calls, evaluator calls, the values   *)
(* read from the object after each run) - the binding to the implementation.     *)
EXTENDS Naturals, Sequences, FiniteSets

CONSTANTS P,                    \* perturbations per gradient (rows of a gradient request)
          Reregister            \* TRUE: every run() registers all callbacks again (the code before its repair)
VARIABLES cfg, s, log
bvars == <<cfg, s, log>>

None == 0 - 1
\* dest: where a write to standard output lands at the moment of the event ("orig" the process's own, "file" optimizer.stdout)
\* open: file descriptors the library holds at that moment (the redirector: two saved, two for the files)
Ev(name, n, obj, kinds, str) == [ev |-> name, n |-> n, obj |-> obj, kinds |-> kinds, s |-> str, dest |-> s.fd, open |-> s.open]

K == Len(cfg.script)
Req == cfg.script[s.k]                  \* what the optimizer asked for
HasF(it) == it.kind \in {"F", "FG"}
HasG(it) == it.kind \in {"G", "FG"}
\* The ensemble evaluator answers a gradient-only request from its function cache only when the request just before
\* it was a function-only request at the same point; otherwise functions are evaluated (and delivered) as well.
\* The completed-function count of the budget grows only for requests that asked for functions.
Point(it) == <<it.obj, it.feas, it.fail>>
Eff(it, cache) == IF it.kind = "G" /\ cache # Point(it) THEN [it EXCEPT !.kind = "FG"] ELSE it
CacheAfter(it, cache) == IF it.kind = "F" THEN Point(it) ELSE IF it.kind = "G" /\ cache = Point(it) THEN cache ELSE <<>>
Item == Eff(Req, s.cache)               \* what is evaluated and delivered
Rows(it) == (IF HasF(it) THEN 1 ELSE 0) + (IF HasG(it) THEN P ELSE 0)
Kinds(it) == (IF HasF(it) THEN <<"F">> ELSE <<>>) \o (IF HasG(it) THEN <<"G">> ELSE <<>>)
\* the objective a callback sees in the function item (None: no function item, or functions missing)
SeenObj(it) == IF HasF(it) /\ ~it.fail THEN it.obj ELSE None

NewRun(run, regA, regR) ==
  [run |-> run, phase |-> "loop", k |-> 1, di |-> 0, done |-> 0, best |-> None, exit |-> "none",
   regA |-> regA, regR |-> regR, acalls |-> s.acalls, cache |-> <<>>,
   fd |-> IF cfg.redir THEN "file" ELSE "orig",        \* _Redirector.start(): the backend's output goes to the file
   open |-> IF cfg.redir THEN 4 ELSE 0]

S0 == [run |-> 1, phase |-> "idle", k |-> 1, di |-> 0, done |-> 0, best |-> None, exit |-> "none",
       regA |-> 0, regR |-> 0, acalls |-> 0, cache |-> <<>>, fd |-> "orig", open |-> 0]

\* run(): a fresh plan and tracker; callbacks set since the last run become observers (each exactly once)
StartRun ==
  /\ s.phase = "idle"
  /\ s' = IF Reregister
          THEN NewRun(s.run, s.regA + cfg.nA, s.regR + cfg.nR + (IF s.run >= 2 THEN cfg.lateR ELSE 0))
          ELSE NewRun(s.run, IF s.run = 1 THEN cfg.nA ELSE s.regA,
                      IF s.run = 1 THEN cfg.nR ELSE IF s.run = 2 THEN s.regR + cfg.lateR ELSE s.regR)
  /\ UNCHANGED <<cfg, log>>

\* the backend prints before each request and before it returns
ScriptEnd ==
  /\ s.phase = "loop" /\ s.k > K
  /\ log' = Append(log, Ev("Opt", s.k, None, <<>>, ""))
  /\ s' = [s EXCEPT !.phase = "finish", !.exit = "finished"]
  /\ UNCHANGED cfg

Request ==
  /\ s.phase = "loop" /\ s.k <= K
  /\ log' = Append(log, Ev("Opt", s.k, None, <<>>, ""))
  /\ s' = [s EXCEPT !.phase = "budget"]
  /\ UNCHANGED cfg

Budget ==
  /\ s.phase = "budget"
  /\ s' = IF cfg.maxfun > 0 /\ s.done >= cfg.maxfun THEN [s EXCEPT !.phase = "finish", !.exit = "maxfun"]
          ELSE [s EXCEPT !.phase = "suspend"]
  /\ UNCHANGED <<cfg, log>>

\* _Redirector.suspend(): events, callbacks and the user's evaluator write to the process's own standard output
Suspend ==
  /\ s.phase = "suspend"
  /\ s' = [s EXCEPT !.phase = "starteval", !.di = 0, !.fd = "orig"]
  /\ UNCHANGED <<cfg, log>>

CallAbortCb ==
  /\ s.phase = "starteval" /\ s.di < s.regA
  /\ log' = Append(log, Ev("AbortCb", s.acalls + 1, None, <<>>, ""))
  /\ s' = IF s.acalls + 1 = cfg.abortAt THEN [s EXCEPT !.acalls = @ + 1, !.phase = "finish", !.exit = "abort"]
          ELSE [s EXCEPT !.acalls = @ + 1, !.di = @ + 1]
  /\ UNCHANGED cfg

Evaluate ==
  /\ s.phase = "starteval" /\ s.di = s.regA
  /\ log' = Append(log, Ev("Eval", Rows(Item), Item.obj, <<>>, ""))
  /\ s' = [s EXCEPT !.phase = "track"]
  /\ UNCHANGED cfg

\* the tracker keeps the first feasible function result with the lowest objective (every result is feasible when the
\* constraint tolerance is None)
Track ==
  /\ s.phase = "track"
  /\ s' = [s EXCEPT !.phase = "deliver", !.di = 0,
                    !.best = IF HasF(Item) /\ ~Item.fail /\ (Item.feas \/ cfg.tolnone) /\ (s.best = None \/ Item.obj < s.best) THEN Item.obj ELSE @]
  /\ UNCHANGED <<cfg, log>>

CallResCb ==
  /\ s.phase = "deliver" /\ s.di < s.regR
  /\ log' = Append(log, Ev("ResCb", 0, SeenObj(Item), Kinds(Item), ""))
  /\ s' = [s EXCEPT !.di = @ + 1]
  /\ UNCHANGED cfg

AfterEval ==
  /\ s.phase = "deliver" /\ s.di = s.regR
  /\ s' = IF Item.fail THEN [s EXCEPT !.phase = "finish", !.exit = "toofew"]
          ELSE [s EXCEPT !.phase = "loop", !.k = @ + 1, !.done = IF HasF(Req) THEN @ + 1 ELSE @, !.cache = CacheAfter(Req, @),
                         !.fd = IF cfg.redir THEN "file" ELSE "orig"]         \* suspend() left: redirected again
  /\ UNCHANGED <<cfg, log>>

\* whatever ended the backend (return, budget, failure, abort): the process's own output is restored
Restore ==
  /\ s.phase = "finish"
  /\ s' = [s EXCEPT !.phase = "report", !.fd = "orig", !.open = 0]
  /\ UNCHANGED <<cfg, log>>

\* the run returns: exit code, tracked best and its variables are read from the object
Finish ==
  /\ s.phase = "report"
  /\ log' = Append(log, Ev("Done", s.run, s.best, <<>>, s.exit))
  /\ s' = IF s.run < cfg.runs THEN [s EXCEPT !.phase = "idle", !.run = @ + 1] ELSE [s EXCEPT !.phase = "end"]
  /\ UNCHANGED cfg

BNext == StartRun \/ ScriptEnd \/ Request \/ Budget \/ Suspend \/ Restore \/ CallAbortCb \/ Evaluate \/ Track \/ CallResCb \/ AfterEval \/ Finish

\* ------------------------------------------------------------------ declarative side
\* (stated over the log and the script only, independent of the action structure)
Idx(name) == {i \in 1..Len(log) : log[i].ev = name}
RunOf(i) == 1 + Cardinality({j \in Idx("Done") : j < i})
RunIdx(r) == {i \in 1..Len(log) : RunOf(i) = r}
EvalsOf(r) == {i \in RunIdx(r) : log[i].ev = "Eval"}
\* the j-th evaluator call of a run is the j-th script item
Nth(r, i) == Cardinality({j \in EvalsOf(r) : j <= i})
\* callbacks the user has set when run r starts
\* gradient-only request k is answered from the cache iff a chain of gradient-only requests at the same point
\* leads back to a function-only request at that point
Hit[k \in 1..K] == /\ cfg.script[k].kind = "G" /\ k > 1 /\ Point(cfg.script[k - 1]) = Point(cfg.script[k])
                   /\ (cfg.script[k - 1].kind = "F" \/ Hit[k - 1])
EffAt(k) == IF cfg.script[k].kind = "G" /\ ~Hit[k] THEN [cfg.script[k] EXCEPT !.kind = "FG"] ELSE cfg.script[k]
UserResCbs(r) == cfg.nR + (IF r >= 2 THEN cfg.lateR ELSE 0)

\* every results callback is called exactly once per finished evaluation, after the evaluator call, with its results
ExactlyOncePerEvaluation ==
  \A r \in 1..cfg.runs : \A i \in EvalsOf(r) :
     LET nxt == {j \in EvalsOf(r) \cup {d \in Idx("Done") : RunOf(d) = r} : j > i}
         upto == IF nxt = {} THEN Len(log) + 1 ELSE CHOOSE j \in nxt : \A j2 \in nxt : j <= j2
         mine == {j \in Idx("ResCb") : i < j /\ j < upto}
     IN  (nxt # {} \/ s.phase \notin {"deliver", "track"}) =>
           /\ Cardinality(mine) = UserResCbs(r)
           /\ \A j \in mine : log[j].kinds = Kinds(EffAt(Nth(r, i))) /\ log[j].obj = SeenObj(EffAt(Nth(r, i)))

\* the abort callback is consulted before every evaluator call and never after it said True
AbortIsFinal ==
  \A i \in Idx("AbortCb") : log[i].n = cfg.abortAt =>
     \A j \in RunIdx(RunOf(i)) : j > i => log[j].ev = "Done" /\ log[j].s = "abort"
AbortConsulted ==
  \A r \in 1..cfg.runs : \A i \in EvalsOf(r) : cfg.nA > 0 => i > 1 /\ log[i - 1].ev = "AbortCb"

\* what a finished run reports: the first feasible lowest objective among the function results delivered in that run
Delivered(r) == {Nth(r, i) : i \in EvalsOf(r)}
BestOf(r) ==
  LET ok == {k \in Delivered(r) : HasF(EffAt(k)) /\ ~cfg.script[k].fail /\ (cfg.script[k].feas \/ cfg.tolnone)}
  IN IF ok = {} THEN None ELSE CHOOSE v \in {cfg.script[k].obj : k \in ok} : \A k \in ok : v <= cfg.script[k].obj
ReportsTrackedBest ==
  \A d \in Idx("Done") : log[d].obj = BestOf(log[d].n)

\* only the backend's own output is redirected, and nothing stays redirected after a run
OutputRouting ==
  \A i \in 1..Len(log) : log[i].dest = (IF log[i].ev = "Opt" /\ cfg.redir THEN "file" ELSE "orig")
\* a run gives back every descriptor it opened
NoDescriptorLeft == \A i \in Idx("Done") : log[i].open = 0

\* exit code and budget
FunctionsOf(r) == Cardinality({k \in Delivered(r) : HasF(cfg.script[k]) /\ ~cfg.script[k].fail})
BudgetRespected == \A r \in 1..cfg.runs : cfg.maxfun > 0 => FunctionsOf(r) <= cfg.maxfun
ExitCodes ==
  \A d \in Idx("Done") :
    LET r == log[d].n
        failed == \E k \in Delivered(r) : cfg.script[k].fail
        abort == \E i \in RunIdx(r) : log[i].ev = "AbortCb" /\ log[i].n = cfg.abortAt
    IN log[d].s = (IF abort THEN "abort" ELSE IF failed THEN "toofew"
                   ELSE IF Cardinality(Delivered(r)) < K THEN "maxfun" ELSE "finished")
\* a stop for the budget happens only when the budget is used up
BudgetStopsOnlyWhenUsedUp ==
  \A d \in Idx("Done") : log[d].s = "maxfun" => cfg.maxfun > 0 /\ FunctionsOf(log[d].n) >= cfg.maxfun
=============================================================================
