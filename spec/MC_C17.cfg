CONSTANTS
  AsIs = FALSE
  Emit = TRUE
  RMax = 3
  PMax = 3
INIT Init
NEXT Next
INVARIANT InvZero
INVARIANT InvPoint
INVARIANT InvShared
INVARIANT InvDistinct
INVARIANT InvEmit
CHECK_DEADLOCK FALSE
