----------------------------- MODULE Trace_C01 -----------------------------
(* Total trace validator for C01 (and the function half of C03): each event  *)
(* carries the scenario record and what EnsembleEvaluator / the plan reported;*)
(* the expected evaluation is recomputed with Ensemble!Eval.                  *)
EXTENDS FunCheck, TLC, Json, IOUtils

Traces == JsonDeserialize(IOEnv.TRACE_FILE)
VARIABLES tid, l, verdict

Check(e) == IF e.ev = "One" THEN CheckOne(e) ELSE CheckFun(e)

Init == tid \in 1..Len(Traces) /\ l = 1 /\ verdict = "ok"
Next == /\ verdict = "ok" /\ l <= Len(Traces[tid])
        /\ verdict' = IF Traces[tid][l].ev \notin {"Eval", "One"} THEN "unknown_event" ELSE Check(Traces[tid][l])
        /\ l' = IF verdict' = "ok" THEN l + 1 ELSE l
        /\ UNCHANGED tid
Report == (verdict # "ok" \/ l = Len(Traces[tid]) + 1) =>
            PrintT(<<IF verdict = "ok" THEN "ACCEPT" ELSE "REJECT", tid, l, verdict>>)
=============================================================================
