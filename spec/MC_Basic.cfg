CONSTANTS
  P = 2
  Reregister = FALSE
  MaxK = 2
  Objs = {1, 2}
  MaxRuns = 2
  MaxCb = 1
  MaxFun = 2
  Emit = TRUE
SPECIFICATION MCSpec
INVARIANT E_ExactlyOncePerEvaluation
INVARIANT E_AbortIsFinal
INVARIANT E_AbortConsulted
INVARIANT E_ReportsTrackedBest
INVARIANT E_BudgetRespected
INVARIANT E_ExitCodes
INVARIANT OutputRouting
INVARIANT NoDescriptorLeft
INVARIANT E_BudgetStopsOnlyWhenUsedUp
INVARIANT InvEmit
PROPERTY Terminates
CHECK_DEADLOCK FALSE
