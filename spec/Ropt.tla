-------------------------------- MODULE Ropt --------------------------------
(* Composition: one recorded optimisation (or evaluation) run of a real plan,   *)
(* observed through a generic recorder (evaluator wrapper + observers + tracker),*)
(* checked against the step / evaluator / tracker / fixed-variable rules at once.*)
(* Data are arbitrary floats: objectives are interned to ranks (order            *)
(* isomorphic), fixed-variable values to identities, so only discrete clauses    *)
(* are judged (bracketing, one evaluator call per evaluation, complete and       *)
(* correctly labelled rows, fixed variables constant, failure flags = NaN rows,  *)
(* gating by realization_min_success, budget, exit code, tracked optimum).       *)
(*                                                                               *)
(* Events of one trace (one plan, steps run in sequence):                        *)
(*   Run   {R, P, minsucc, maxfun, nfixed, batch, tracked}                       *)
(*   Ev    {etype, step}                       observer saw the event            *)
(*   Call  {labels: [[b, r, p]], fixedids: [[id ...] per fixed variable],        *)
(*          nanrow: [bool per row]}            the user evaluator was called     *)
(*   Res   {items: [[id, kind, hasfun, obj, nan, feas, failed: [bool per r]]],   *)
(*          aligned: results / transformed_results pair up item by item}         *)
(*          data of the FINISHED_EVALUATION just seen                            *)
(*   Exit  {step, code}                        run_step returned                 *)
(*   Best  {kept}                              what the tracker / BasicOptimizer holds *)
EXTENDS Evaluator, Tracker, TLC, Json, IOUtils

Traces == JsonDeserialize(IOEnv.TRACE_FILE)
VARIABLES tid, l, verdict, cfg, phase, open, calls, lastcall, nfun, hist, lastfail, fixedid, aborted, stored
rvars == <<cfg, phase, open, calls, lastcall, nfun, hist, lastfail, fixedid, aborted, stored>>

SeqSet(s) == {s[i] : i \in 1..Len(s)}
Lab(c) == [i \in 1..Len(c.labels) |-> <<c.labels[i][1], c.labels[i][2], c.labels[i][3]>>]
B(c) == IF \E i \in 1..Len(c.labels) : c.labels[i][3] > 0 THEN 1
        ELSE Cardinality({c.labels[i][1] : i \in 1..Len(c.labels)})
RowsOK(c) ==
  LET seen == Lab(c)
      hasF == \E i \in 1..Len(seen) : seen[i][3] = 0
      hasG == \E i \in 1..Len(seen) : seen[i][3] > 0
      want == (IF hasF THEN FunRows(B(c), cfg.R) ELSE {}) \cup (IF hasG THEN GradRows(cfg.R, cfg.P) ELSE {})
  IN RowsExactlyOnce(seen, want)
\* failed flags of the function item for batch row b = NaN in the unperturbed row of that realization
FlagsOK(c, item, b) ==
  \A r \in 1..cfg.R : item.failed[r] = (\E i \in 1..Len(c.labels) : c.labels[i] = <<b, r, 0>> /\ c.nanrow[i])

Item(x) == [id |-> x.id, kind |-> x.kind, hasfun |-> x.hasfun, obj |-> x.obj, nan |-> x.nan, feas |-> x.feas]

Init == /\ tid \in 1..Len(Traces) /\ l = 1 /\ verdict = "ok"
        /\ cfg = [R |-> 1] /\ phase = "idle" /\ open = FALSE /\ calls = 0 /\ lastcall = [labels |-> <<>>]
        /\ nfun = 0 /\ hist = <<>> /\ lastfail = FALSE /\ fixedid = <<>> /\ aborted = FALSE /\ stored = <<>>

Step(e) ==
  CASE e.ev = "Run" ->
         /\ cfg' = e /\ phase' = "idle" /\ open' = FALSE /\ calls' = 0 /\ nfun' = 0 /\ lastfail' = FALSE /\ fixedid' = <<>>
         /\ UNCHANGED <<lastcall, hist, aborted, stored>> /\ verdict' = "ok"
    [] e.ev = "Ev" /\ e.etype = "START_STEP" ->
         /\ verdict' = IF phase \notin {"idle", "finished"} THEN "step_started_inside_a_step"
                       ELSE IF aborted THEN "step_ran_after_the_plan_was_aborted" ELSE "ok"
         /\ phase' = "started" /\ open' = FALSE /\ nfun' = 0 /\ lastfail' = FALSE
         /\ UNCHANGED <<cfg, calls, lastcall, hist, fixedid, aborted, stored>>
    [] e.ev = "Ev" /\ e.etype = "START_EVAL" ->
         /\ verdict' = IF phase # "started" THEN "evaluation_outside_a_step" ELSE IF open THEN "evaluations_interleaved"
                       ELSE IF cfg.maxfun > 0 /\ nfun >= cfg.maxfun THEN "evaluation_after_budget_exhausted" ELSE "ok"
         /\ open' = TRUE /\ calls' = 0 /\ UNCHANGED <<cfg, phase, lastcall, nfun, hist, lastfail, fixedid, aborted, stored>>
    [] e.ev = "Call" ->
         /\ verdict' = IF ~open THEN "evaluator_called_outside_an_evaluation"
                       ELSE IF calls >= 1 THEN "more_than_one_evaluator_call_per_evaluation"
                       ELSE IF ~RowsOK(e) THEN "evaluator_rows_incomplete_or_mislabelled"
                       ELSE IF \E v \in 1..Len(e.fixedids) : Len(e.fixedids[v]) # 1 THEN "fixed_variable_varies_within_a_request"
                       ELSE IF Len(fixedid) > 0 /\ (\E v \in 1..Len(e.fixedids) : e.fixedids[v][1] # fixedid[v]) THEN "fixed_variable_moved"
                       ELSE "ok"
         /\ calls' = calls + 1 /\ lastcall' = e
         /\ fixedid' = IF Len(fixedid) = 0 THEN [v \in 1..Len(e.fixedids) |-> IF Len(e.fixedids[v]) > 0 THEN e.fixedids[v][1] ELSE 0] ELSE fixedid
         /\ UNCHANGED <<cfg, phase, open, nfun, hist, lastfail, aborted, stored>>
    [] e.ev = "Ev" /\ e.etype = "FINISHED_EVAL" ->
         /\ verdict' = IF ~open THEN "FINISHED_EVALUATION_without_START_EVALUATION"
                       ELSE IF calls # 1 THEN "evaluation_without_evaluator_call" ELSE "ok"
         /\ open' = FALSE /\ UNCHANGED <<cfg, phase, calls, lastcall, nfun, hist, lastfail, fixedid, aborted, stored>>
    [] e.ev = "Res" ->
         LET F == {i \in 1..Len(e.items) : e.items[i].kind = "F"}
             fails == \E i \in 1..Len(e.items) : ~e.items[i].hasfun
             bidx(i) == Cardinality({j \in F : j <= i})
         IN /\ verdict' = IF ~e.aligned THEN "results_and_transformed_results_do_not_correspond"
                          ELSE IF \E i \in 1..Len(e.items) : e.items[i].meta # cfg.meta THEN "metadata_not_attached_to_results"
                          ELSE IF \E i \in F : ~FlagsOK(lastcall, e.items[i], bidx(i)) THEN "failed_flags_not_the_nan_rows"
                          ELSE IF \E i \in F : e.items[i].hasfun /\ Cardinality({r \in 1..cfg.R : ~e.items[i].failed[r]}) < cfg.minsucc
                               THEN "functions_reported_below_min_success"
                          \* (strict configurations: no filter or estimator can be left empty while the threshold is met)
                          ELSE IF cfg.strict /\ (\E i \in F : ~e.items[i].hasfun
                                     /\ Cardinality({r \in 1..cfg.R : ~e.items[i].failed[r]}) >= (IF cfg.minsucc > 1 THEN cfg.minsucc ELSE 1))
                               THEN "functions_withheld_although_enough_realizations_succeeded"
                          ELSE IF cfg.maxfun > 0 /\ nfun + Cardinality(F) > cfg.maxfun + cfg.batch - 1 THEN "budget_exceeded"
                          ELSE "ok"
            /\ nfun' = nfun + Cardinality(F) /\ lastfail' = fails
            /\ hist' = IF cfg.tracked THEN Append(hist, [src |-> "tracked", items |-> [i \in 1..Len(e.items) |-> Item(e.items[i])]]) ELSE hist
            /\ stored' = stored \o [i \in 1..Len(e.items) |-> e.items[i].id]
            /\ UNCHANGED <<cfg, phase, open, calls, lastcall, fixedid, aborted>>
    [] e.ev = "Ev" /\ e.etype = "FINISHED_STEP" ->
         /\ verdict' = IF phase # "started" THEN "FINISHED_STEP_without_START_STEP" ELSE "ok"
         /\ phase' = "finished" /\ UNCHANGED <<cfg, open, calls, lastcall, nfun, hist, lastfail, fixedid, aborted, stored>>
    [] e.ev = "Abort" ->
         /\ aborted' = TRUE /\ verdict' = "ok" /\ UNCHANGED <<cfg, phase, open, calls, lastcall, nfun, hist, lastfail, fixedid, stored>>
    [] e.ev = "Exit" ->
         /\ verdict' = IF e.code = "refused" THEN (IF aborted /\ phase = "idle" THEN "ok" ELSE "step_refused_without_abort")
                       ELSE IF aborted /\ phase = "idle" THEN "ok"          \* (unreachable: a latched plan refuses)
                       ELSE IF phase # "finished" THEN "step_returned_without_FINISHED_STEP"
                       ELSE IF open /\ ~aborted THEN "unmatched_START_EVALUATION_without_abort"
                       ELSE IF aborted THEN (IF e.code = "abort" THEN "ok" ELSE "abort_not_reported")
                       ELSE IF e.code = "toofew" THEN (IF lastfail THEN "ok" ELSE "spurious_TOO_FEW_REALIZATIONS")
                       ELSE IF lastfail THEN "failure_not_reported_by_exit_code"
                       ELSE IF e.code = "maxfun" THEN (IF cfg.maxfun > 0 /\ nfun >= cfg.maxfun THEN "ok" ELSE "spurious_MAX_FUNCTIONS_REACHED")
                       ELSE IF e.code \in {"finished", "evalfinished"} THEN "ok" ELSE "undocumented_exit_" \o e.code
         /\ UNCHANGED rvars
    [] e.ev = "Store" ->          \* a store handler accumulates every delivered result, in order, exactly once
         /\ verdict' = IF e.ids # [i \in 1..Len(stored) |-> stored[i]] THEN "store_handler_not_the_sequence_of_delivered_results"
                       ELSE IF e.metashared THEN "results_share_one_metadata_object" ELSE "ok"
         /\ UNCHANGED rvars
    [] e.ev = "Best" ->
         /\ verdict' = IF IsBest(e.kept, hist, FALSE) THEN "ok" ELSE "tracked_result_not_the_feasible_optimum"
         /\ UNCHANGED rvars
    [] OTHER -> verdict' = "unknown_event" /\ UNCHANGED rvars

Next == /\ verdict = "ok" /\ l <= Len(Traces[tid])
        /\ Step(Traces[tid][l])
        /\ l' = IF verdict' = "ok" THEN l + 1 ELSE l
        /\ UNCHANGED tid
Report == (verdict # "ok" \/ l = Len(Traces[tid]) + 1) =>
            PrintT(<<IF verdict = "ok" THEN "ACCEPT" ELSE "REJECT", tid, l, verdict>>)
=============================================================================
