------------------------------ MODULE MC_C19 ------------------------------
(* Bounded instance for C19: every call sequence of length L over add / get / *)
(* is_supported on two managers, three test plug-ins with overlapping method  *)
(* sets (one not discoverable), names in two case variants, on top of a       *)
(* built-in registry (one discoverable built-in supporting "s", one           *)
(* non-discoverable built-in supporting "s").                                  *)
EXTENDS PluginManager, TLC, Json

CONSTANTS L, Emit
VARIABLES reg, hist

P1 == TestPlug(1)
P2 == TestPlug(2)
P3 == TestPlug(3)
B1 == [id |-> "B1", methods |-> {"s"}, discover |-> TRUE]        \* e.g. scipy
B2 == [id |-> "B2", methods |-> {"s", "t"}, discover |-> FALSE]  \* e.g. external; "t" stands for a qualified method "scipy/slsqp"
Plug(i) == TestPlug(i)
Builtin == <<[name |-> "b1", plugin |-> B1], [name |-> "b2", plugin |-> B2]>>

\* raw names as given by the caller and their lower-case form
Adds == {[op |-> "add", m |-> m, raw |-> a[1], p |-> a[2], prio |-> pr] :
           m \in 1..2, a \in {<<"x", 1>>, <<"X", 2>>, <<"y", 2>>, <<"z", 3>>, <<"b1", 1>>}, pr \in BOOLEAN}      \* "b1": the name of a built-in
\* ("d" stands for the literal method name "default")
Reqs == {<<"", "a">>, <<"", "b">>, <<"", "c">>, <<"", "s">>, <<"", "d">>, <<"", "q">>, <<"", "k">>, <<"X", "a">>, <<"x", "c">>, <<"y", "b">>, <<"z", "a">>,
         <<"b2", "s">>, <<"b2", "t">>, <<"q", "a">>, <<"x", "d">>}       \* ("x/default": the named plug-in does not support it)
\* (every request on the first manager, the bare-name and one qualified request on the second)
Gets == {[op |-> "get", m |-> 1, plug |-> r[1], meth |-> r[2]] : r \in Reqs}
        \cup {[op |-> "get", m |-> 2, plug |-> r[1], meth |-> r[2]] : r \in {<<"", "a">>, <<"", "b">>, <<"", "c">>, <<"", "s">>, <<"X", "a">>, <<"b2", "s">>}}
Sups == {[op |-> "sup", m |-> m, plug |-> r[1], meth |-> r[2]] : m \in {1}, r \in {<<"", "a">>, <<"", "c">>, <<"z", "c">>, <<"x", "b">>}}

Init == reg = <<Builtin, Builtin>> /\ hist = <<>>

DoAdd(c) == /\ hist' = Append(hist, c @@ [ret |-> AddResult(reg[c.m], Lower(c.raw))])
            /\ reg' = [reg EXCEPT ![c.m] = AddReg(reg[c.m], Lower(c.raw), Plug(c.p), c.prio)]
DoGet(c) == /\ hist' = Append(hist, c @@ [ret |-> Lookup(reg[c.m], Lower(c.plug), c.meth)])
            /\ UNCHANGED reg
DoSup(c) == /\ hist' = Append(hist, c @@ [ret |-> IF IsSupported(reg[c.m], Lower(c.plug), c.meth) THEN "true" ELSE "false"])
            /\ UNCHANGED reg
Next == /\ Len(hist) < L
        /\ \/ \E c \in Adds : DoAdd(c)
           \/ \E c \in Gets : DoGet(c)
           \/ \E c \in Sups : DoSup(c)

\* ---- properties of the design
NoDuplicates == \A m \in 1..2 : \A i, j \in 1..Len(reg[m]) : i # j => reg[m][i].name # reg[m][j].name
BareNeverHidden == \A m \in 1..2 : \A meth \in {"a", "b", "c", "s"} :
                     LET r == Lookup(reg[m], "", meth) IN r # "ConfigError" => r \notin {"P3", "B2"}
QualifiedConsultsOnlyNamed == \A m \in 1..2 : \A meth \in {"a", "b", "c", "s"} : \A n \in {"x", "y", "z", "b1", "b2", "q"} :
                     LET r == Lookup(reg[m], n, meth) IN
                       r # "ConfigError" => \E i \in 1..Len(reg[m]) : reg[m][i].name = n /\ reg[m][i].plugin.id = r
\* operations on one manager never change the other one
Independent == [][\A m \in 1..2 : (hist' # hist /\ hist'[Len(hist')].m # m) => reg'[m] = reg[m]]_<<reg, hist>>
InvEmit == Len(hist) = L /\ Emit => PrintT(ToJson([calls |-> hist]))
=============================================================================
