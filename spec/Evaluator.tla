------------------------------ MODULE Evaluator ------------------------------
(* The request machine of EnsembleEvaluator (ensemble_evaluator/              *)
(* _ensemble_evaluator.py:calculate, _evaluator_results.py).                   *)
(*                                                                             *)
(* State: cache = the point (id) of the last functions-only evaluation, kept   *)
(* for a later gradient at the same point (0 = none).  A call is               *)
(*   [k |-> "F", pt, batch]   functions for a batch of vectors                 *)
(*   [k |-> "G", pt]          gradient only                                    *)
(*   [k |-> "FG", pt]         functions and gradient                           *)
(* and produces ONE evaluator request whose rows carry (batch row, realization,*)
(* perturbation) labels; perturbation 0 stands for "unperturbed" (-1 / absent).*)
EXTENDS Util

\* rows requested, as a set of labels <<b, r, p>> (b = batch row, p = 0 unperturbed)
FunRows(B, R)     == {<<b, r, 0>> : b \in 1..B, r \in 1..R}
GradRows(R, P)    == {<<1, r, p>> : r \in 1..R, p \in 1..P}
\* what a call must ask the evaluator for, given the cache
Request(call, cache, R, P) ==
  CASE call.k = "F"  -> [kind |-> "F",  rows |-> FunRows(call.batch, R)]
    [] call.k = "FG" -> [kind |-> "FG", rows |-> FunRows(1, R) \cup GradRows(R, P)]
    [] call.k = "G"  -> IF cache = call.pt THEN [kind |-> "G",  rows |-> GradRows(R, P)]
                        ELSE                    [kind |-> "FG", rows |-> FunRows(1, R) \cup GradRows(R, P)]
\* the cache after a call: a functions-only call caches its (first) point, a combined one clears it
CacheAfter(call, cache) ==
  CASE call.k = "F" -> call.pt
    [] call.k = "G" -> IF cache = call.pt THEN cache ELSE 0
    [] call.k = "FG" -> 0

\* labels seen (a sequence of <<b, r, p>>) are exactly the requested rows, each once
RowsExactlyOnce(seen, rows) ==
  /\ Len(seen) = Cardinality(rows)
  /\ \A x \in rows : Cardinality({i \in 1..Len(seen) : seen[i] = x}) = 1

\* injective code of (point, batch row, realization, perturbation, function) returned by the scripted evaluator
Code(pt, b, r, p, f) == 10000 * pt + 1000 * b + 100 * r + 10 * p + f
=============================================================================
