----------------------------- MODULE Trace_C08 -----------------------------
(* Total trace validator for C08: what the SciPy plug-in handed to            *)
(* minimize / differential_evolution (captured by the scripted client),        *)
(* evaluated on a grid of integer points, against the configured problem.      *)
(* Variables (x1, x2, x3); with mask "fix2" x2 is fixed at 1.                  *)
(*   non-linear: c1 = x1 + x2 + x3, c2 = x1 - 2 x3 + 1, c3 = 2 x1 - x3         *)
(*   linear:     l1 = x1 + x3,      l2 = x1 - x3,       l3 = x1 + x2           *)
EXTENDS NormCons, TLC, Json, IOUtils

Traces == JsonDeserialize(IOEnv.TRACE_FILE)
VARIABLES tid, l, verdict

NLVal(k, x) == CASE k = 1 -> x[1] + x[2] + x[3] [] k = 2 -> x[1] - 2 * x[3] + 1 [] k = 3 -> 2 * x[1] - x[3]
LinVal(k, x) == CASE k = 1 -> x[1] + x[3] [] k = 2 -> x[1] - x[3] [] k = 3 -> x[1] + x[2]
LinTouchesFixed(k) == k = 3
Full(g) == <<g[1], 1, g[2]>>                       \* grid point (x1, x3) completed with x2 = 1
\* mask "fix23": x2 = 1 and x3 = 0 are fixed; linear rows l1 = x1 + x2 - x3 (the fixed coefficients cancel in the sum),
\* l2 = x1, l3 = x1 + x2 - only l2 involves no fixed variable
LinVal23(k, x) == CASE k = 1 -> x[1] + x[2] - x[3] [] k = 2 -> x[1] [] k = 3 -> x[1] + x[2]
LinTouchesFixed23(k) == k \in {1, 3}
Full23(g) == <<g[1], 1, 0>>
SeqToSet(s) == {s[i] : i \in 1..Len(s)}

\* observed extended number against an integer bound with INF sentinel
ObsBound(o, b) == IF b >= INF THEN o.k = "inf" /\ o.n = 1 ELSE IF b <= -INF THEN o.k = "inf" /\ o.n = -1 ELSE ObsEqInt(o, b)
ObsSign(o) == IF o.k = "q" /\ o.zero THEN 0 ELSE IF o.neg THEN -1 ELSE 1            \* sign of an observed value
ObsLe(a, b) == (a.k = "inf" /\ a.n = -1) \/ (b.k = "inf" /\ b.n = 1) \/ (a.k = "q" /\ b.k = "q" /\ a.n * b.d <= b.n * a.d)

Check(e) ==
  LET nNL == Len(e.nl)   nLin == Len(e.lin)
      masked == e.mask = "fix2"
      fix23 == e.mask = "fix23"
      free == IF fix23 THEN <<1>> ELSE IF masked THEN <<1, 3>> ELSE <<1, 2, 3>>
      keptLin == {k \in 1..nLin : ~(masked /\ LinTouchesFixed(k)) /\ ~(fix23 /\ LinTouchesFixed23(k))}
      \* a narrow band [-1, -1 + 1e-6] contains exactly the integer -1
      NLB(k) == IF e.narrow /\ k = 1 THEN [lb |-> -1, ub |-> -1] ELSE Bounds(e.nl[k])
      nEq == Cardinality({k \in 1..nNL : e.nl[k] = "eq"}) + Cardinality({k \in keptLin : e.lin[k] = "eq"})
      G == 1..Len(e.grid)
      x(i) == IF fix23 THEN Full23(e.grid[i]) ELSE Full(e.grid[i])
      cfgFeasible(i) ==
        /\ \A j \in 1..Len(free) : Sat(x(i)[free[j]], [lb |-> e.vlb[free[j]], ub |-> e.vub[free[j]]])
        /\ \A k \in 1..nNL : Sat(NLVal(k, x(i)), NLB(k))
        /\ \A k \in keptLin : Sat(IF fix23 THEN LinVal23(k, x(i)) ELSE LinVal(k, x(i)), Bounds(e.lin[k]))
      boundsOK(i) == ~e.bounds.present \/ \A j \in 1..Len(free) :
                        ObsLe(e.bounds.lb[j], [k |-> "q", n |-> x(i)[free[j]], d |-> 1]) /\ ObsLe([k |-> "q", n |-> x(i)[free[j]], d |-> 1], e.bounds.ub[j])
      rowsOK(i) == \A r \in 1..Len(e.rows) : IF e.rows[r].eq THEN ObsSign(e.rows[r].vals[i]) = 0 ELSE ObsSign(e.rows[r].vals[i]) >= 0
      objsOK(i) == \A o \in 1..Len(e.objs) : \A r \in 1..Len(e.objs[o].vals[i]) :
                      ObsLe(e.objs[o].lb[r], e.objs[o].vals[i][r]) /\ ObsLe(e.objs[o].vals[i][r], e.objs[o].ub[r])
      handedFeasible(i) == boundsOK(i) /\ rowsOK(i) /\ objsOK(i)
      anyCons == (\E k \in 1..nNL : e.nl[k] # "none") \/ (\E k \in keptLin : e.lin[k] # "none")
      limit == IF e.method = "tnc" THEN e.opt.maxfun ELSE e.opt.maxiter
  IN IF e.outcome = "rejected" THEN (IF e.method \in {"slsqp", "differential_evolution"} THEN "supported_problem_rejected" ELSE "ok")
     ELSE IF e.outcome # "ok" THEN "internal_exception"
     ELSE IF e.bounds.present /\ (Len(e.bounds.lb) # Len(free) \/ Len(e.bounds.ub) # Len(free)) THEN "fixed_variables_exposed"
     ELSE IF e.bounds.present /\ (\E j \in 1..Len(free) : ~ObsBound(e.bounds.lb[j], e.vlb[free[j]]) \/ ~ObsBound(e.bounds.ub[j], e.vub[free[j]]))
          THEN "bounds_object_differs"
     ELSE IF e.method \in {"slsqp", "cobyla"} /\ Cardinality({r \in 1..Len(e.rows) : e.rows[r].eq}) # nEq THEN "inequality_handed_as_equality_or_vice_versa"
     ELSE IF \E i \in G : cfgFeasible(i) /\ ~handedFeasible(i) THEN "handed_problem_stricter"
     ELSE IF \E i \in G : ~cfgFeasible(i) /\ handedFeasible(i) THEN "constraint_dropped_or_weakened"
     ELSE IF \E r \in 1..Len(e.rows) : Len(e.rows[r].jac0) > 0 /\ \E v \in 1..Len(free) :
               ~(e.rows[r].jac0[v].k = "q" /\ e.rows[r].valp[v].k = "q" /\ e.rows[r].val0.k = "q"
                 /\ ObsEq(e.rows[r].jac0[v], QSub(ObsQ(e.rows[r].valp[v]), ObsQ(e.rows[r].val0))))
          THEN "jacobian_not_derivative_of_value"
     \* Jacobians requested at several points in a row (no value request in between) belong to their own points
     ELSE IF \E i \in 1..Len(e.jacseq) : ~e.jacseq[i] THEN "jacobian_of_another_point"
     ELSE IF e.maxit > 0 /\ limit # e.maxit THEN "max_iterations_not_forwarded"
     ELSE "ok"

Init == tid \in 1..Len(Traces) /\ l = 1 /\ verdict = "ok"
Next == /\ verdict = "ok" /\ l <= Len(Traces[tid])
        /\ verdict' = IF Traces[tid][l].ev \notin {"Handed"} THEN "unknown_event" ELSE Check(Traces[tid][l])
        /\ l' = IF verdict' = "ok" THEN l + 1 ELSE l
        /\ UNCHANGED tid
Report == (verdict # "ok" \/ l = Len(Traces[tid]) + 1) =>
            PrintT(<<IF verdict = "ok" THEN "ACCEPT" ELSE "REJECT", tid, l, verdict>>)
=============================================================================
