------------------------------- MODULE Util -------------------------------
(* Small exact-arithmetic toolbox shared by every module of the ropt          *)
(* specification.  TLC has 32-bit integers and no reals: every quantity of    *)
(* the specification is an integer or a rational <<num, den>> with den > 0,   *)
(* compared by cross-multiplication (no gcd needed, magnitudes stay small).   *)
EXTENDS Integers, Sequences, FiniteSets

RECURSIVE SumTo(_, _)
SumTo(f, n) == IF n = 0 THEN 0 ELSE f[n] + SumTo(f, n - 1)
Sum(s) == SumTo(s, Len(s))                         \* sum of an integer sequence

RECURSIVE SumSet(_, _)
SumSet(f, S) == IF S = {} THEN 0
                ELSE LET x == CHOOSE y \in S : TRUE IN f[x] + SumSet(f, S \ {x})

Abs(x) == IF x < 0 THEN -x ELSE x
Max2(a, b) == IF a >= b THEN a ELSE b
Min2(a, b) == IF a <= b THEN a ELSE b

\* ---- rationals <<n, d>>, d > 0 -------------------------------------------
Q(n, d)      == IF d < 0 THEN <<-n, -d>> ELSE <<n, d>>
QInt(n)      == <<n, 1>>
QEq(a, b)    == a[1] * b[2] = b[1] * a[2]
QLt(a, b)    == a[1] * b[2] < b[1] * a[2]
QLe(a, b)    == a[1] * b[2] <= b[1] * a[2]
QAdd(a, b)   == <<a[1] * b[2] + b[1] * a[2], a[2] * b[2]>>
QSub(a, b)   == <<a[1] * b[2] - b[1] * a[2], a[2] * b[2]>>
QMul(a, b)   == <<a[1] * b[1], a[2] * b[2]>>
QNeg(a)      == <<-a[1], a[2]>>
QZero(a)     == a[1] = 0

\* ---- permutations of 1..n as sequences -----------------------------------
Perms(n) == {p \in [1..n -> 1..n] : \A i, j \in 1..n : i # j => p[i] # p[j]}

\* ---- observed numbers -----------------------------------------------------
\* The harness projects every float v reported by the code to a record
\*   [k |-> "q"|"nan"|"inf"|"none", n, d, close, zero, neg]
\* n/d = Fraction(v).limit_denominator(10^5), close <=> |v - n/d| <= 1e-7*max(1,|v|),
\* zero <=> v == 0.0 exactly, neg <=> v < 0.
IsQ(x)        == x.k = "q" /\ x.close
\* observed x (a fraction in lowest terms) equals the rational a = <<num, den>>, den > 0:
\* then x.d divides den; written so that no large product is formed.
ObsEq(x, a)   == /\ IsQ(x)
                 /\ IF a[1] = 0 THEN x.n = 0
                    ELSE a[2] % x.d = 0 /\ x.n * (a[2] \div x.d) = a[1]
ObsEqInt(x,i) == IsQ(x) /\ x.n = i * x.d
ObsNaN(x)     == x.k = "nan"
ObsQ(x)       == <<x.n, x.d>>
=============================================================================
