----------------------------- MODULE Trace_C05 -----------------------------
(* Total trace validator for C05 (sort filter window, filter-index maps).    *)
EXTENDS Filters, TLC, Json, IOUtils

Traces == JsonDeserialize(IOEnv.TRACE_FILE)
VARIABLES tid, l, verdict

\* observed weight w equals configured weight cw[i] / W  (W = sum of configured weights)
WEq(w, c, W) == IF c = 0 THEN w.k = "q" /\ w.zero ELSE ObsEq(w, <<c, W>>)
RowIs(row, N, sel, cw, W) == /\ Len(row) = N
                             /\ \A i \in 1..N : IF i \in sel THEN WEq(row[i], cw[i], W)
                                                ELSE row[i].k = "q" /\ row[i].zero

CheckSort(e) ==
  LET N   == e.n
      F   == {i \in 1..N : e.failed[i]}
      S   == Succ(N, F)
      key == [i \in 1..N |-> IF e.multi THEN e.val[i] + 2 * e.o2[i] ELSE e.val[i]]
      W   == SumTo(e.cw, N)
      valid == e.first <= e.last /\ e.last < N
      Z   == {i \in S : e.cw[i] = 0}
      Adm == {s \in SUBSET S : IsSortSelection(N, s, key, F, e.first, e.last)}
  IN IF ~valid THEN (IF e.outcome = "rejected" THEN "ok" ELSE "window_outside_ensemble_not_rejected")
     ELSE IF e.outcome = "rejected" THEN "valid_window_rejected"
     ELSE IF \A s \in Adm : \A i \in s : e.cw[i] = 0      \* no admissible selection has positive weight
          THEN (IF e.outcome \in {"toofew", "nofunctions"} THEN "ok" ELSE "empty_selection_outcome")
     ELSE IF e.outcome \in {"toofew", "nofunctions"} /\ (\E s \in Adm : \A i \in s : e.cw[i] = 0) THEN "ok"
     ELSE IF e.outcome # "ok" THEN "outcome_not_ok"
     ELSE IF Len(e.w) # N THEN "weight_shape"
     ELSE IF \E i \in 1..N : e.w[i].k # "q" THEN "weight_not_finite"
     ELSE IF \E i \in F : ~e.w[i].zero THEN "failed_member_weighted"
     ELSE IF ~\E s \in Adm : RowIs(e.w, N, s, e.cw, W) THEN "not_rank_window"
     ELSE IF e.via = "e2e" /\ ~\E s \in Adm :
               /\ RowIs(e.w, N, s, e.cw, W)
               /\ ObsEq(e.value, <<SumTo([i \in 1..N |-> IF i \in s THEN e.cw[i] * e.val[i] ELSE 0], N),
                                   SumTo([i \in 1..N |-> IF i \in s THEN e.cw[i] ELSE 0], N)>>)
          THEN "value_not_window_mean"
     ELSE "ok"

\* filter-index maps: 2 objectives + 2 constraints, filter 0 = sort-objective on val with window
\* [first,last], filter 1 = sort-constraint on -val with window [first2,last2] (distinct values)
CheckMap(e) ==
  LET N   == e.n
      F   == {i \in 1..N : e.failed[i]}
      S   == Succ(N, F)
      W   == SumTo(e.cw, N)
      neg == [i \in 1..N |-> -e.val[i]]
      sel0 == SortSupport(N, e.val, F, e.first, e.last)
      sel1 == SortSupport(N, neg, F, e.first2, e.last2)
      used(j) == \E f \in 1..4 : e.map[f] = j
      empty(s) == \A i \in s : e.cw[i] = 0
      mustFail == (used(0) /\ empty(sel0)) \/ (used(1) /\ empty(sel1))
      Expect(f, row) == CASE e.map[f] = -1 -> Len(row) = 0 \/ RowIs(row, N, 1..N, e.cw, W)
                          [] e.map[f] = 0  -> RowIs(row, N, sel0, e.cw, W)
                          [] e.map[f] = 1  -> RowIs(row, N, sel1, e.cw, W)
      rows == <<e.ow[1], e.ow[2], e.cwt[1], e.cwt[2]>>
      \* the value of function f is the configured-weight mean over the realizations its filter selects
      setOf(f) == CASE e.map[f] = -1 -> S [] e.map[f] = 0 -> sel0 \ F [] e.map[f] = 1 -> sel1 \ F
      den(f) == SumTo([i \in 1..N |-> IF i \in setOf(f) THEN e.cw[i] ELSE 0], N)
      num(f) == SumTo([i \in 1..N |-> IF i \in setOf(f) THEN e.cw[i] * e.cols[f][i] ELSE 0], N)
  IN IF mustFail THEN (IF e.outcome \in {"toofew", "nofunctions"} THEN "ok" ELSE "empty_selection_outcome")
     ELSE IF S = {} THEN (IF e.outcome \in {"toofew", "nofunctions"} THEN "ok" ELSE "empty_success_set_outcome")
     ELSE IF e.outcome # "ok" THEN "outcome_not_ok"
     ELSE IF \E f \in 1..4 : e.map[f] # -1 /\ ~Expect(f, rows[f]) THEN "mapped_row_not_filter_weights"
     ELSE IF \E f \in 1..4 : e.map[f] = -1 /\ ~Expect(f, rows[f]) THEN "unmapped_row_not_configured_weights"
     ELSE IF \E f \in 1..4 : den(f) > 0 /\ ~ObsEq(e.fvals[f], <<num(f), den(f)>>) THEN "function_value_not_the_mean_over_its_own_selection"
     ELSE "ok"

Check(e) == IF e.ev = "Sort" THEN CheckSort(e) ELSE CheckMap(e)

Init == tid \in 1..Len(Traces) /\ l = 1 /\ verdict = "ok"
Next == /\ verdict = "ok" /\ l <= Len(Traces[tid])
        /\ verdict' = IF Traces[tid][l].ev \notin {"Sort", "SortMap"} THEN "unknown_event" ELSE Check(Traces[tid][l])
        /\ l' = IF verdict' = "ok" THEN l + 1 ELSE l
        /\ UNCHANGED tid
Report == (verdict # "ok" \/ l = Len(Traces[tid]) + 1) =>
            PrintT(<<IF verdict = "ok" THEN "ACCEPT" ELSE "REJECT", tid, l, verdict>>)
=============================================================================
