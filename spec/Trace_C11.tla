----------------------------- MODULE Trace_C11 -----------------------------
(* Total trace validator for C11: a pair of runs of the same user-domain      *)
(* configuration and point, without and with scaling transforms.  What the    *)
(* user sees must coincide; the validated optimizer-domain configuration must *)
(* be the image of the user's one under Transforms.tla.                       *)
EXTENDS Transforms, TLC, Json, IOUtils

Traces == JsonDeserialize(IOEnv.TRACE_FILE)
VARIABLES tid, l, verdict

Same(a, b) == a.k = b.k /\ (a.k = "q" => a.close /\ b.close /\ a.n * b.d = b.n * a.d) /\ (a.k = "inf" => a.n = b.n)
SameSeq(s, t) == Len(s) = Len(t) /\ \A i \in 1..Len(s) : Same(s[i], t[i])
ObsBoundQ(o, b, q) == IF IsInf(b) THEN o.k = "inf" /\ o.n = (IF b > 0 THEN 1 ELSE -1) ELSE ObsEq(o, q)
Reduce(q) == q        \* ObsEq tolerates unreduced rationals as long as the denominator divides

Check(e) ==
  LET s == IF e.which = "offs" THEN <<<<1, 1>>, <<1, 1>>>> ELSE <<<<e.s[1][1], e.s[1][2]>>, <<e.s[2][1], e.s[2][2]>>>>
      o == IF e.which = "scal" THEN <<0, 0>> ELSE e.o
      X == <<<<e.x[1], 1>>, <<e.x[2], 1>>>>
      eqs == EqScale(e.a, s)
      expected == IF e.fail THEN "toofew" ELSE "finished"
      vt == e.which \in {"all", "vars", "offs", "scal"}          \* a variable transform is supplied
  IN IF e.plain.outcome # expected THEN "plain_run_failed"
     ELSE IF e.trans.outcome # expected THEN "transformed_run_failed"
     ELSE IF ~SameSeq(e.plain.rows, e.trans.rows) THEN "evaluator_received_different_user_domain_vectors"
     ELSE IF ~SameSeq(e.plain.vars, e.trans.vars) THEN "result_variables_differ"
     ELSE IF ~SameSeq(e.plain.pert, e.trans.pert) THEN "perturbed_variables_differ"
     ELSE IF ~SameSeq(e.plain.real, e.trans.real) THEN "per_realization_values_differ"
     ELSE IF ~SameSeq(e.plain.funs, e.trans.funs) THEN "function_values_differ"
     ELSE IF ~SameSeq(e.plain.diffs, e.trans.diffs) THEN "constraint_differences_differ"
     ELSE IF ~SameSeq(e.plain.viols, e.trans.viols) THEN "constraint_violations_differ"
     ELSE IF \E v \in 1..2 : ~ObsEq(e.roundtrip[v], X[v]) THEN "round_trip_not_identity"
     ELSE IF ~vt THEN "ok"                      \* the configuration checks below concern the variable transform
     ELSE IF \E v \in 1..2 : ~ObsBoundQ(e.cfgopt.lb[v], e.lb[v], ToOpt(<<e.lb[v], 1>>, s[v], o[v]))
                             \/ ~ObsBoundQ(e.cfgopt.ub[v], e.ub[v], ToOpt(<<e.ub[v], 1>>, s[v], o[v])) THEN "transformed_bounds_wrong"
     ELSE IF \E v \in 1..2 : ~ObsEq(e.cfgopt.coef[v], QDiv(RowOptCoef(e.a, s)[v], eqs)) THEN "transformed_linear_coefficients_wrong"
     ELSE IF ~ObsBoundQ(e.cfgopt.ll, e.l, RowOptBound(e.l, e.a, s, o)) THEN "transformed_linear_bounds_wrong"
     ELSE IF e.nar = 0 /\ ~ObsBoundQ(e.cfgopt.lu, e.u, RowOptBound(e.u, e.a, s, o)) THEN "transformed_linear_bounds_wrong"
     \* a narrow range (upper = lower + 2^-12) stays a range: the transformed upper bound lies strictly above the lower one
     ELSE IF e.nar = 1 /\ ~(e.cfgopt.lu.k = "q" /\ QLt(ObsQ(e.cfgopt.ll), ObsQ(e.cfgopt.lu))) THEN "narrow_range_collapsed_by_the_transformation"
     ELSE IF \E v \in 1..2 : ~ObsEq(e.cfgopt.magn[v], QDiv(ObsQ(e.cfgplain.magn[v]), s[v])) THEN "transformed_magnitudes_wrong"
     ELSE "ok"

Init == tid \in 1..Len(Traces) /\ l = 1 /\ verdict = "ok"
Next == /\ verdict = "ok" /\ l <= Len(Traces[tid])
        /\ verdict' = IF Traces[tid][l].ev \notin {"Pair"} THEN "unknown_event" ELSE Check(Traces[tid][l])
        /\ l' = IF verdict' = "ok" THEN l + 1 ELSE l
        /\ UNCHANGED tid
Report == (verdict # "ok" \/ l = Len(Traces[tid]) + 1) =>
            PrintT(<<IF verdict = "ok" THEN "ACCEPT" ELSE "REJECT", tid, l, verdict>>)
=============================================================================
