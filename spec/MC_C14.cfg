CONSTANTS
  KSet = {1, 2}
  TfSet = {"none", "all"}
  Emit = TRUE
SPECIFICATION MCSpec
INVARIANT BudgetRespected
INVARIANT TooFewIffFailure
INVARIANT FailingResultsDelivered
INVARIANT MaxFunOnlyByBudget
INVARIANT DocumentedExit
INVARIANT InvEmit
CHECK_DEADLOCK FALSE
