------------------------------ MODULE OptStep ------------------------------
(* One optimizer (or evaluator) step seen from its exit code                   *)
(* (optimization/_optimizer.py: _optimizer_callback, _check_stopping_criteria, *)
(* _run_evaluations; plugins/plan/optimizer.py, evaluator.py).                 *)
(*                                                                             *)
(* cfg: [kind |-> "opt" | "eval",                                              *)
(*       reqs |-> sequence of "f" | "fg" | "g" requests of the scripted back-end,*)
(*       failAt |-> index of the failing evaluation (0 = none),                *)
(*       fclass |-> "thr"    too few realizations for realization_min_success  *)
(*                  "filter" the realization filter is left without a member   *)
(*                  "est"    the stddev estimator is left with one member      *)
(*                  "pert"   too few successful perturbations (gradients only) *)
(*                  "allnan" every realization fails with realization_min_success = 0 *)
(*                  "estpert" / "allnanpert" the same two conditions arising only in a gradient evaluation *)
(*                  "exc"    the user's evaluator raises an exception,         *)
(*       maxfun |-> function budget (0 = none), allownan |-> NaN-tolerant back-end] *)
EXTENDS Util

VARIABLES cfg, k, completed, evals, delivered, exit, phase
ovars == <<cfg, k, completed, evals, delivered, exit, phase>>

HasF(r) == r \in {"f", "fg", "fb"}          \* "fb": a parallel back-end asks for a batch of B vectors at once
NFun(r) == IF r = "fb" THEN 2 ELSE IF r \in {"f", "fg"} THEN 1 ELSE 0
HasG(r) == r \in {"g", "fg"}
\* does evaluation i (request r) fail, given the failure class ?
Fails(i, r) ==
  /\ i = cfg.failAt
  /\ CASE cfg.fclass \in {"thr", "filter", "est"} -> HasF(r)
       [] cfg.fclass = "pert"   -> HasG(r)
       [] cfg.fclass = "estpert" -> HasG(r)          \* perturbation failures leave the stddev estimator one realization
       [] cfg.fclass = "allnanpert" -> HasG(r) /\ cfg.kind = "opt" /\ ~cfg.allownan   \* every perturbed evaluation fails, min_success = 0
       [] cfg.fclass = "allnan" -> HasF(r) /\ cfg.kind = "opt" /\ ~cfg.allownan     \* a back-end that cannot digest NaN values stops
       [] OTHER -> FALSE

\* the back-end issues its next request: the budget is checked first
CheckBudget ==
  /\ phase = "next"
  /\ IF k = Len(cfg.reqs) THEN phase' = "done" /\ exit' = (IF cfg.kind = "eval" THEN "evalfinished" ELSE "finished") /\ UNCHANGED k
     ELSE IF cfg.kind = "opt" /\ cfg.maxfun > 0 /\ completed >= cfg.maxfun THEN phase' = "done" /\ exit' = "maxfun" /\ UNCHANGED k
     ELSE phase' = "eval" /\ k' = k + 1 /\ UNCHANGED exit
  /\ UNCHANGED <<cfg, completed, evals, delivered>>
\* the ensemble is evaluated; an exception of the user's evaluator leaves the step unchanged
Evaluate ==
  /\ phase = "eval"
  /\ evals' = evals + 1
  /\ IF k = cfg.failAt /\ cfg.fclass = "exc" THEN phase' = "done" /\ exit' = "exc" /\ UNCHANGED delivered
     ELSE /\ delivered' = Append(delivered, [idx |-> k, failed |-> Fails(k, cfg.reqs[k])])    \* results reach the handlers
          /\ phase' = "judge" /\ UNCHANGED exit
  /\ UNCHANGED <<cfg, k, completed>>
Judge ==
  /\ phase = "judge"
  /\ IF Fails(k, cfg.reqs[k]) THEN phase' = "done" /\ exit' = "toofew" /\ UNCHANGED completed
     ELSE phase' = "next" /\ completed' = completed + NFun(cfg.reqs[k]) /\ UNCHANGED exit
  /\ UNCHANGED <<cfg, k, evals, delivered>>
ONext == CheckBudget \/ Evaluate \/ Judge

\* ---- properties (C14)
\* never more than max_functions evaluations, up to one batch for parallel methods
BudgetRespected == cfg.kind = "opt" /\ cfg.maxfun > 0 => completed <= cfg.maxfun + 1
TooFewIffFailure == phase = "done" => (exit = "toofew" <=> \E i \in 1..Len(delivered) : delivered[i].failed)
FailingResultsDelivered == phase = "done" /\ exit = "toofew" => delivered[Len(delivered)].failed
MaxFunOnlyByBudget == phase = "done" /\ exit = "maxfun" => completed >= cfg.maxfun /\ cfg.maxfun > 0
DocumentedExit == phase = "done" => exit \in {"finished", "evalfinished", "toofew", "maxfun", "exc"}
=============================================================================
