-------------------------------- MODULE Plan --------------------------------
(* Plans, steps, events and the abort latch (plan/_plan.py, _context.py,       *)
(* plugins/plan/optimizer.py, evaluator.py, optimization/_optimizer.py).       *)
(*                                                                             *)
(* A run is sequential.  Level 1 is the outer plan, level 2 an inner (nested)  *)
(* plan whose function runs one optimizer step per outer evaluation.  Each     *)
(* plan has handlers (in registration order), the context has observers.       *)
(* An emission is delivered to the handlers of the emitting plan, then to the  *)
(* handlers of its ancestors, then to the observers - one Deliver action per   *)
(* receiver, so that an abort can be raised at every single delivery.          *)
(*                                                                             *)
(* cfg: [kind  |-> "opt" | "eval" | "seq" | "nested" | "renest",                          *)
(*       K     |-> evaluations requested by the (outer) scripted optimizer,    *)
(*       Kin   |-> evaluations of each inner run,                              *)
(*       failAt|-> evaluator call number that yields too few realizations (0), *)
(*       maxfun|-> function budget of the outer step (0 = none),               *)
(*       abEm, abRc |-> emission number / receiver position raising USER_ABORT *)
(*       abCall|-> evaluator call number raising USER_ABORT (0 = none)]        *)
EXTENDS Util

CONSTANTS NH, NO                 \* handlers per plan, observers
VARIABLES cfg, m, stack, stream, emc, callc, aborted, rets, refused
vars == <<cfg, m, stack, stream, emc, callc, aborted, rets, refused>>

Handlers(level) == [i \in 1..NH |-> [kind |-> "h", level |-> level, idx |-> i]]
Observers == [i \in 1..NO |-> [kind |-> "o", level |-> 0, idx |-> i]]
\* Level 3 is a SECOND outer plan (kind "renest"): after the first outer run it runs the same inner plan as its own nested
\* optimisation - the inner plan's events then travel to the handlers of the plan that runs it now.
\* outer: the plan an inner run reports to (for an outer plan: itself)
ReceiversOf(level, outer) == IF level = 2 THEN Handlers(2) \o Handlers(outer) \o Observers ELSE Handlers(level) \o Observers
Receivers(level) == ReceiversOf(level, 1)

\* A step machine m = [level, step, kind ("opt"|"eval"), st, k, K, em, di, exit, done (completed functions), nested]
\* st: "start" -> "emit"(em) -> ... -> "ret"
NewStep(level, step, kind, K, nested) ==
  [level |-> level, step |-> step, kind |-> kind, st |-> "emit", em |-> "START_STEP", di |-> 0, k |-> 0, K |-> K,
   exit |-> "none", done |-> 0, nested |-> nested, unmatched |-> FALSE, outer |-> IF level = 2 THEN 1 ELSE level]

Normal(kind) == IF kind = "eval" THEN "evalfinished" ELSE "finished"

\* ---- what happens after the current emission completed WITHOUT an abort
AfterEmission(x) ==
  CASE x.em = "START_STEP"  -> [x EXCEPT !.st = "loop"]
    [] x.em = "START_EVAL"  -> [x EXCEPT !.st = "call", !.unmatched = TRUE]
    [] x.em = "FINISHED_EVAL" -> [x EXCEPT !.st = "evaldone", !.unmatched = FALSE]
    [] x.em = "FINISHED_STEP" -> [x EXCEPT !.st = "ret"]
\* ---- an abort raised while delivering the current emission
AbortDuring(x) ==
  IF x.em = "FINISHED_STEP" THEN [x EXCEPT !.st = "ret", !.exit = "abort"]
  ELSE [x EXCEPT !.st = "finish", !.exit = "abort", !.unmatched = (x.em = "START_EVAL")]

Init == /\ cfg \in {}          \* instantiated by the MC module
        /\ FALSE

\* deliver the current emission of the active machine to the next receiver
Deliver ==
  /\ m.st = "emit"
  /\ LET rc == ReceiversOf(m.level, m.outer)
         pos == m.di + 1
         em == IF m.di = 0 THEN emc + 1 ELSE emc
     IN /\ emc' = em
        /\ stream' = Append(stream, [em |-> em, etype |-> m.em, step |-> m.step, level |-> m.level, outer |-> m.outer, recv |-> rc[pos]])
        /\ IF cfg.abEm = em /\ cfg.abRc = pos
           THEN m' = AbortDuring(m)
           ELSE IF pos = Len(rc) THEN m' = AfterEmission([m EXCEPT !.di = 0])
           ELSE m' = [m EXCEPT !.di = pos]
  /\ UNCHANGED <<cfg, stack, callc, aborted, rets, refused>>

\* the optimizer asks for its next evaluation (or is done); budget check first
Loop ==
  /\ m.st = "loop"
  /\ IF m.kind = "eval"
     THEN m' = (IF m.k = 0 THEN [m EXCEPT !.st = "emit", !.em = "START_EVAL", !.k = 1] ELSE [m EXCEPT !.st = "finish", !.exit = Normal(m.kind)])
     ELSE IF m.k = m.K THEN m' = [m EXCEPT !.st = "finish", !.exit = Normal(m.kind)]
     ELSE IF m.level # 2 /\ cfg.maxfun > 0 /\ m.done >= cfg.maxfun THEN m' = [m EXCEPT !.st = "finish", !.exit = "maxfun"]
     ELSE IF m.nested THEN m' = [m EXCEPT !.st = "nested", !.k = m.k + 1]
     ELSE m' = [m EXCEPT !.st = "emit", !.em = "START_EVAL", !.k = m.k + 1]
  /\ UNCHANGED <<cfg, stack, stream, emc, callc, aborted, rets, refused>>

\* nested: push the outer machine, run one inner optimizer step (refused if the inner plan is already aborted)
EnterNested ==
  /\ m.st = "nested"
  /\ IF aborted[2]
     THEN /\ refused' = Append(refused, [level |-> 2])
          /\ m' = [m EXCEPT !.st = "finish", !.exit = "abort"]          \* an aborted inner plan aborts the outer run
          /\ UNCHANGED stack
     ELSE /\ stack' = <<m>> /\ UNCHANGED refused
          /\ m' = [NewStep(2, (IF m.level = 3 THEN 150 ELSE 100) + m.k, "opt", cfg.Kin, FALSE) EXCEPT !.outer = m.level]
  /\ UNCHANGED <<cfg, stream, emc, callc, aborted, rets>>

\* the user evaluator is called
Call ==
  /\ m.st = "call"
  /\ callc' = callc + 1
  /\ IF cfg.abCall = callc + 1 THEN m' = [m EXCEPT !.st = "finish", !.exit = "abort"]
     ELSE m' = [m EXCEPT !.st = "emit", !.em = "FINISHED_EVAL", !.exit = IF cfg.failAt = callc + 1 THEN "toofew" ELSE m.exit]
  /\ UNCHANGED <<cfg, stack, stream, emc, aborted, rets, refused>>

EvalDone ==
  /\ m.st = "evaldone"
  /\ m' = IF m.exit = "toofew" THEN [m EXCEPT !.st = "finish"] ELSE [m EXCEPT !.st = "loop", !.done = m.done + 1]
  /\ UNCHANGED <<cfg, stack, stream, emc, callc, aborted, rets, refused>>

\* the step winds up: an abort latches the plan, then the step's FINISHED event is emitted
Finish ==
  /\ m.st = "finish"
  /\ aborted' = IF m.exit = "abort" THEN [aborted EXCEPT ![m.level] = TRUE] ELSE aborted
  /\ m' = [m EXCEPT !.st = "emit", !.em = "FINISHED_STEP", !.di = 0]
  /\ UNCHANGED <<cfg, stack, stream, emc, callc, rets, refused>>

\* the step returns its exit code; an inner step returns into the outer machine
Return ==
  /\ m.st = "ret"
  /\ rets' = Append(rets, [step |-> m.step, level |-> m.level, code |-> m.exit])
  /\ aborted' = IF m.exit = "abort" THEN [aborted EXCEPT ![m.level] = TRUE] ELSE aborted
  /\ IF Len(stack) > 0
     THEN /\ stack' = <<>>
          /\ m' = IF m.exit = "abort" THEN [stack[1] EXCEPT !.st = "finish", !.exit = "abort"]
                  ELSE IF m.exit # "finished" THEN [stack[1] EXCEPT !.st = "finish", !.exit = "nestedfailed"]
                  ELSE [stack[1] EXCEPT !.st = "emit", !.em = "START_EVAL"]
          /\ UNCHANGED refused
     ELSE IF cfg.kind = "renest" /\ m.step = 1          \* another (not aborted) outer plan runs the same inner plan
          THEN /\ m' = NewStep(3, 2, "opt", cfg.K, TRUE) /\ UNCHANGED <<stack, refused>>
     ELSE IF cfg.kind = "seq" /\ m.step = 1
          THEN IF aborted'[1]
               THEN /\ refused' = Append(refused, [level |-> 1]) /\ m' = [m EXCEPT !.st = "end"] /\ UNCHANGED stack
               ELSE /\ m' = NewStep(1, 2, "opt", cfg.K, FALSE) /\ UNCHANGED <<stack, refused>>
          ELSE /\ m' = [m EXCEPT !.st = "end"] /\ UNCHANGED <<stack, refused>>
  /\ UNCHANGED <<cfg, stream, emc, callc>>

Next == Deliver \/ Loop \/ EnterNested \/ Call \/ EvalDone \/ Finish \/ Return

\* =========================== properties (C15) ===============================
StepEvents(s) == SelectSeq(stream, LAMBDA d : d.step = s)
\* bracket grammar of one step: START_STEP first, FINISHED_STEP last (once the step returned),
\* every FINISHED_EVAL directly preceded (at this step) by its START_EVAL
RECURSIVE Bracketed(_, _, _, _)
Bracketed(types, i, open, allowOpen) ==   \* types: sequence of emission types of one step, in order
  IF i > Len(types) THEN TRUE
  ELSE CASE types[i] = "START_STEP"    -> i = 1 /\ Bracketed(types, i + 1, FALSE, allowOpen)
         [] types[i] = "START_EVAL"    -> i > 1 /\ ~open /\ Bracketed(types, i + 1, TRUE, allowOpen)
         [] types[i] = "FINISHED_EVAL" -> open /\ Bracketed(types, i + 1, FALSE, allowOpen)
         [] types[i] = "FINISHED_STEP" -> i = Len(types) /\ i > 1 /\ (~open \/ allowOpen)
TypesOf(s) == LET ev == StepEvents(s)
                  idx == {j \in 1..Len(ev) : j = 1 \/ ev[j].em # ev[j - 1].em}
              IN [n \in 1..Cardinality(idx) |-> ev[CHOOSE j \in idx : Cardinality({q \in idx : q <= j}) = n].etype]
Returned(s) == \E i \in 1..Len(rets) : rets[i].step = s
CodeOf(s) == (CHOOSE r \in {rets[i] : i \in 1..Len(rets)} : r.step = s).code
\* an unmatched START_EVAL is admitted only in a step that ended with USER_ABORT
WellBracketed == \A s \in {stream[i].step : i \in 1..Len(stream)} :
                    LET t == TypesOf(s) IN
                      IF Returned(s)
                      THEN t[1] = "START_STEP" /\ t[Len(t)] = "FINISHED_STEP" /\ Bracketed(t, 1, FALSE, CodeOf(s) = "abort")
                      ELSE Bracketed(t, 1, FALSE, TRUE)
\* deliveries of one emission follow the receiver order, each receiver at most once
DeliveryOrder == \A i, j \in 1..Len(stream) : (i < j /\ stream[i].em = stream[j].em) =>
                    LET rc == ReceiversOf(stream[i].level, stream[i].outer) IN
                    \E p, q \in 1..Len(rc) : p < q /\ rc[p] = stream[i].recv /\ rc[q] = stream[j].recv
\* after an abort: USER_ABORT reported, plan latched
AbortLatches == \A i \in 1..Len(rets) : rets[i].code = "abort" => aborted[rets[i].level]
NestedAbortReachesParent == (m.st = "end" /\ aborted[2]) => aborted[1] \/ aborted[3]
Terminates == <>(m.st = "end")
=============================================================================
