CONSTANTS
  P = 2
  Reregister = FALSE
INIT TInit
NEXT TNext
INVARIANT Report
INVARIANT Safe
CHECK_DEADLOCK FALSE
