----------------------------- MODULE Trace_C14 -----------------------------
(* Trace validator for C14: the recorded run of an optimizer / evaluator step  *)
(* is replayed against OptStep.tla.  Logged: one "Eval" event per evaluator    *)
(* call (was the result delivered to the handlers, did it report a failure)    *)
(* and the final "Exit"; CheckBudget and Judge are silent model steps.         *)
EXTENDS OptStep, TLC, Json, IOUtils

Traces == JsonDeserialize(IOEnv.TRACE_FILE)
VARIABLES tid, l, verdict
tvars == <<tid, l, verdict>>
Tr == Traces[tid]

TInit == /\ tid \in 1..Len(Traces) /\ l = 2 /\ verdict = "ok"
         /\ cfg = Traces[tid][1].cfg
         /\ k = 0 /\ completed = 0 /\ evals = 0 /\ delivered = <<>> /\ exit = "none" /\ phase = "next"
Stop(v) == verdict' = v /\ UNCHANGED <<tid, l>> /\ UNCHANGED ovars
Silent == verdict = "ok" /\ (CheckBudget \/ Judge) /\ UNCHANGED tvars
TEvaluate ==
  /\ verdict = "ok" /\ phase = "eval"
  /\ IF l > Len(Tr) THEN Stop("run_ended_early")
     ELSE LET e == Tr[l] IN
          IF e.ev = "Exit" THEN Stop(IF e.code = "maxfun" THEN "spurious_MAX_FUNCTIONS_REACHED"
                                     ELSE IF e.code = "toofew" THEN "spurious_TOO_FEW_REALIZATIONS"
                                     ELSE "run_ended_early_with_" \o e.code)
          ELSE IF k = cfg.failAt /\ cfg.fclass = "exc" THEN
               (IF e.delivered THEN Stop("results_delivered_for_raising_evaluator") ELSE Evaluate /\ l' = l + 1 /\ UNCHANGED <<tid, verdict>>)
          ELSE IF ~e.delivered THEN Stop(IF Fails(k, cfg.reqs[k]) THEN "failing_results_not_delivered" ELSE "results_not_delivered")
          ELSE IF ~(k = cfg.failAt /\ cfg.fclass \in {"allnan", "allnanpert"}) /\ e.failed # Fails(k, cfg.reqs[k]) THEN Stop(IF e.failed THEN "unexpected_failure_reported" ELSE "failure_not_reported")
          ELSE Evaluate /\ l' = l + 1 /\ UNCHANGED <<tid, verdict>>
TDone ==
  /\ verdict = "ok" /\ phase = "done"
  /\ IF l > Len(Tr) THEN Stop("missing_exit")
     ELSE LET e == Tr[l] IN
          IF e.ev # "Exit" THEN Stop(IF exit = "maxfun" THEN "budget_exceeded" ELSE "evaluation_after_the_run_should_have_ended")
          ELSE IF exit = "exc" THEN (IF e.code = "exc:ValueError" THEN phase' = "checked" /\ l' = l + 1 /\ UNCHANGED <<tid, verdict, cfg, k, completed, evals, delivered, exit>>
                                     ELSE Stop("evaluator_exception_swallowed_or_replaced"))
          ELSE IF e.code # exit THEN Stop("exit_code_expected_" \o exit \o "_got_" \o e.code)
          \* (the optimization engine driven directly, without plan and step, ends the same way)
          ELSE IF e.direct # "" /\ e.direct # exit THEN Stop("engine_used_directly_expected_" \o exit \o "_got_" \o e.direct)
          ELSE IF cfg.kind = "opt" /\ cfg.maxfun > 0 /\ e.nfun > cfg.maxfun + 1 THEN Stop("budget_exceeded")
          ELSE phase' = "checked" /\ l' = l + 1 /\ UNCHANGED <<tid, verdict, cfg, k, completed, evals, delivered, exit>>
TNext == Silent \/ TEvaluate \/ TDone
Report == (verdict # "ok" \/ phase = "checked") =>
            PrintT(<<IF verdict = "ok" THEN "ACCEPT" ELSE "REJECT", tid, l, verdict>>)
Safe == verdict = "ok" => BudgetRespected /\ DocumentedExit
=============================================================================
