----------------------------- MODULE Trace_C18 -----------------------------
(* Total trace validator for C18: projections of EnOptConfig.model_validate   *)
(* (first validation, re-validation of the dumped form, of the object itself) *)
(* against ConfigCanon!Canon, and the outcome of every attempted mutation.     *)
EXTENDS ConfigCanon, TLC, Json, IOUtils

Traces == JsonDeserialize(IOEnv.TRACE_FILE)
VARIABLES tid, l, verdict

Scen(e) == [V |-> e.V, R |-> e.R, rwp |-> e.rwp, owp |-> e.owp, bnd |-> e.bnd, mask |-> e.mask, ptype |-> e.ptype, magn |-> e.magn,
            rms |-> e.rms, pms |-> e.pms, lin |-> e.lin, nl |-> e.nl]
ObsBound(o, b) == IF b >= INF THEN o.k = "inf" /\ o.n = 1 ELSE IF b <= -INF THEN o.k = "inf" /\ o.n = -1 ELSE ObsEqInt(o, b)

ProjBad(p, c, tag) ==
  LET x == Canon(c) IN
  IF Len(p.rw) # c.R \/ \E r \in 1..c.R : ~ObsEq(p.rw[r], x.rw[r]) THEN tag \o "realization_weights_not_normalized"
  \* (the canonical "near" weights have a denominator beyond the projection: their sum is judged instead)
  ELSE IF c.owp = "near" /\ ~(Len(p.ow) = 2 /\ ObsEqInt(p.owsum, 1)) THEN tag \o "objective_weights_not_normalized"
  ELSE IF c.owp # "near" /\ (Len(p.ow) # Len(x.ow) \/ \E o \in 1..Len(x.ow) : ~ObsEq(p.ow[o], x.ow[o])) THEN tag \o "objective_weights_not_normalized"
  ELSE IF p.rms # x.rms THEN tag \o "realization_min_success_not_clamped"
  ELSE IF p.pms # x.pms THEN tag \o "perturbation_min_success_not_clamped"
  ELSE IF Len(p.lb) # c.V \/ Len(p.ub) # c.V THEN tag \o "bounds_not_broadcast"
  ELSE IF \E v \in 1..c.V : ~ObsBound(p.lb[v], x.lb[v]) \/ ~ObsBound(p.ub[v], x.ub[v]) THEN tag \o "bounds_differ"
  ELSE IF p.mask # x.mask THEN tag \o "mask_not_broadcast"
  ELSE IF Len(p.magn) # c.V THEN tag \o "magnitudes_not_broadcast"
  ELSE IF \E v \in 1..c.V : ~ObsEq(p.magn[v], x.magn[v]) THEN tag \o "perturbation_magnitudes_differ"
  ELSE IF p.nlin # x.nlin \/ p.nnl # x.nnl THEN tag \o "constraint_arrays_not_broadcast"
  ELSE "ok"

ObsBoundQ(o, b) == IF b.inf = 1 THEN o.k = "inf" /\ o.n = 1 ELSE IF b.inf = -1 THEN o.k = "inf" /\ o.n = -1 ELSE ObsEq(o, b.q)
\* a projection of a validation with the variable transform in the context
ScaledBad(p, c, tag) ==
  LET x == ScaledCanon(c) IN
  IF ~p.accepted THEN tag \o "rejected"
  ELSE IF Len(p.rw) # c.R \/ \E r \in 1..c.R : ~ObsEq(p.rw[r], x.rw[r]) THEN tag \o "realization_weights_not_normalized"
  ELSE IF p.rms # x.rms \/ p.pms # x.pms THEN tag \o "thresholds_not_clamped"
  ELSE IF Len(p.lb) # c.V \/ Len(p.ub) # c.V THEN tag \o "bounds_not_broadcast"
  ELSE IF \E v \in 1..c.V : ~ObsBoundQ(p.lb[v], x.lb[v]) \/ ~ObsBoundQ(p.ub[v], x.ub[v]) THEN tag \o "bounds_not_in_the_optimizer_domain"
  ELSE IF p.mask # x.mask THEN tag \o "mask_not_broadcast"
  ELSE IF Len(p.magn) # c.V THEN tag \o "magnitudes_not_broadcast"
  ELSE IF \E v \in 1..c.V : ~ObsEq(p.magn[v], x.magn[v]) THEN tag \o "perturbation_magnitudes_differ"
  ELSE IF p.nlin # x.nlin \/ p.nnl # x.nnl THEN tag \o "constraint_arrays_not_broadcast"
  ELSE "ok"
CheckScaled(e, c) ==
  IF ~e.tf.done THEN "ok"
  ELSE IF ScaledBad(e.tf.first, c, "transformed_") # "ok" THEN ScaledBad(e.tf.first, c, "transformed_")
  ELSE IF ScaledBad(e.tf.route, c, "transformed_after_plain_validation_") # "ok" THEN ScaledBad(e.tf.route, c, "transformed_after_plain_validation_")
  ELSE IF ScaledBad(e.tf.objects, c, "transformed_from_validated_parts_") # "ok" THEN ScaledBad(e.tf.objects, c, "transformed_from_validated_parts_")
  ELSE IF ScaledBad(e.tf.objects2, c, "transformed_from_validated_parts_again_") # "ok" THEN ScaledBad(e.tf.objects2, c, "transformed_from_validated_parts_again_")
  ELSE IF ~e.tf.parts_unchanged THEN "validation_modified_a_validated_object_of_the_caller"
  ELSE IF \E i \in 1..Len(e.tf.mutations) : ~e.tf.mutations[i].rejected THEN "mutation_accepted_after_transformed_validation"
  \* a constraint transform with a negative scale: refused, or accepted with consistent bounds and a dumped form that validates
  ELSE IF e.tf.negcon.accepted /\ ~(e.tf.negcon.consistent /\ e.tf.negcon.redump_accepted) THEN "bounds_inverted_by_the_transform_accepted"
  ELSE "ok"

Check(e) ==
  LET c == Scen(e) IN
  IF Rejected(c) THEN (IF e.accepted THEN "inconsistent_configuration_accepted" ELSE "ok")
  ELSE IF ~e.accepted THEN "valid_configuration_rejected"
  ELSE IF ProjBad(e.first, c, "") # "ok" THEN ProjBad(e.first, c, "")
  ELSE IF ~e.again.accepted THEN "revalidation_of_dumped_form_rejected"
  ELSE IF ProjBad(e.again, c, "revalidated_") # "ok" THEN ProjBad(e.again, c, "revalidated_")
  ELSE IF ~e.sameobject THEN "validating_the_object_changed_it"
  ELSE IF \E i \in 1..Len(e.mutations) : ~e.mutations[i].rejected THEN "mutation_accepted"
  ELSE IF ~e.independent_of_callers_arrays THEN "stored_array_is_a_view_of_the_callers_array"
  ELSE CheckScaled(e, c)

Init == tid \in 1..Len(Traces) /\ l = 1 /\ verdict = "ok"
Next == /\ verdict = "ok" /\ l <= Len(Traces[tid])
        /\ verdict' = IF Traces[tid][l].ev \notin {"Canon"} THEN "unknown_event" ELSE Check(Traces[tid][l])
        /\ l' = IF verdict' = "ok" THEN l + 1 ELSE l
        /\ UNCHANGED tid
Report == (verdict # "ok" \/ l = Len(Traces[tid]) + 1) =>
            PrintT(<<IF verdict = "ok" THEN "ACCEPT" ELSE "REJECT", tid, l, verdict>>)
=============================================================================
