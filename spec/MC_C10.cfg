CONSTANTS
  SMax = 9
  Emit = TRUE
INIT Init
NEXT Next
INVARIANT InvAllowed
INVARIANT InvInBounds
INVARIANT InvInsideUntouched
INVARIANT InvEmit
CHECK_DEADLOCK FALSE
