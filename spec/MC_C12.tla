------------------------------ MODULE MC_C12 ------------------------------
(* Bounded instance for C12: every history of length L over a small alphabet  *)
(* of FINISHED_EVALUATION events (objective ranks incl. NaN and ties,          *)
(* feasibility, result kind, missing functions, source), x best/last x         *)
(* sign-flipping objective transform x tolerance None.                          *)
EXTENDS Tracker, TLC, Json

CONSTANTS L, Pairs, Emit
VARIABLES par, hist, kept

\* item shapes: <<kind, hasfun, obj, nan, feas>>
\* (objective 9 stands for +infinity in the user domain: a defined value, so a valid optimum when nothing finite is feasible)
Shapes == {<<"F", TRUE, 1, FALSE, TRUE>>, <<"F", TRUE, 2, FALSE, TRUE>>, <<"F", TRUE, 0, TRUE, TRUE>>, <<"F", TRUE, 9, FALSE, TRUE>>,
           <<"F", TRUE, 1, FALSE, FALSE>>, <<"F", TRUE, 0, FALSE, FALSE>>, <<"F", FALSE, 0, TRUE, TRUE>>, <<"G", FALSE, 0, TRUE, TRUE>>}
Item(sh, id) == [id |-> id, kind |-> sh[1], hasfun |-> sh[2], obj |-> sh[3], nan |-> sh[4], feas |-> sh[5]]
Events(n) == {[src |-> "tracked", items |-> <<Item(a, 10 * n + 1)>>] : a \in Shapes}
             \cup {[src |-> "other", items |-> <<Item(<<"F", TRUE, 0, FALSE, TRUE>>, 10 * n + 1)>>]}
             \cup {[src |-> "tracked2", items |-> <<Item(a, 10 * n + 1)>>] : a \in {<<"F", TRUE, 1, FALSE, TRUE>>, <<"F", TRUE, 2, FALSE, TRUE>>}}
             \cup (IF Pairs THEN {[src |-> "tracked", items |-> <<Item(a, 10 * n + 1), Item(b, 10 * n + 2)>>] :
                                    a \in Shapes \ {<<"F", FALSE, 0, TRUE, TRUE>>}, b \in Shapes \ {<<"F", FALSE, 0, TRUE, TRUE>>, <<"F", TRUE, 0, FALSE, FALSE>>}}
                   ELSE {})

\* srcs: how the tracker was given its sources - the set of the two tracked steps, None, or not at all (then it tracks nothing)
Init == /\ \E what \in {"best", "last"} : \E flip \in BOOLEAN : \E tol \in {"none", "zero", "pos"} : \E srcs \in {"set", "none", "omitted", "empty"} :
           /\ (srcs # "set" => tol = "pos" /\ ~flip)
           /\ par = [what |-> what, flip |-> flip, tolnone |-> (tol = "none"), tol |-> tol, srcs |-> srcs]
        /\ hist = <<>> /\ kept = [id |-> 0, obj |-> 0]
\* with tolerance None every result counts as feasible
Eff(ev) == LET e == IF par.srcs = "set" THEN ev ELSE [ev EXCEPT !.src = "other"]
           IN IF par.tolnone THEN [e EXCEPT !.items = [j \in 1..Len(e.items) |-> [e.items[j] EXCEPT !.feas = TRUE]]] ELSE e
\* (trackers without sources hold nothing whatever happens: their histories stop at length 3)
Cap == IF par.srcs = "set" \/ L < 3 THEN L ELSE 3
Next == /\ Len(hist) < Cap
        /\ \E ev \in Events(Len(hist) + 1) :
             /\ hist' = Append(hist, ev)
             /\ kept' = Update(par.what, kept, Eff(ev), par.flip)
             /\ UNCHANGED par
EffHist == [i \in 1..Len(hist) |-> Eff(hist[i])]
InvHolds == Holds(par.what, kept.id, EffHist, par.flip)
InvEmit == Len(hist) = Cap /\ Emit => PrintT(ToJson([par |-> par, events |-> hist]))
=============================================================================
