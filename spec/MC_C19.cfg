CONSTANTS
  L = 3
  Emit = TRUE
INIT Init
NEXT Next
INVARIANT NoDuplicates
INVARIANT BareNeverHidden
INVARIANT QualifiedConsultsOnlyNamed
INVARIANT InvEmit
PROPERTY Independent
CHECK_DEADLOCK FALSE
