------------------------------ MODULE FixedVars ------------------------------
(* Fixed (masked-out) variables during an optimizer step                        *)
(* (optimization/_optimizer.py: start, _get_completed_variables, nested          *)
(* optimisation; ensemble_evaluator: perturbation and gradient expansion).       *)
(*                                                                               *)
(* State: fixed = the complete variable vector whose entries outside the mask    *)
(* are authoritative.  Actions:                                                  *)
(*   Start(x0)         the step starts from the complete vector x0               *)
(*   NestedResult(y)   an inner optimisation delivered the complete vector y     *)
(*                     (it owns the complementary variables)                     *)
(*   Request(xf)       the back-end asks for an evaluation at free values xf     *)
(* Every vector sent to the evaluator and every reported vector must agree with  *)
(* `fixed` outside the mask and (unperturbed) with xf inside it.                 *)
EXTENDS Util

Complete(fixed, mask, xf) ==            \* xf: sequence of the free values, in order
  [v \in 1..Len(mask) |-> IF mask[v] THEN xf[Cardinality({w \in 1..v : mask[w]})] ELSE fixed[v]]
FreeCount(mask) == Cardinality({v \in 1..Len(mask) : mask[v]})
AgreesOutside(row, fixed, mask) == \A v \in 1..Len(mask) : ~mask[v] => row[v] = fixed[v]
=============================================================================
