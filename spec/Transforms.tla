------------------------------ MODULE Transforms ------------------------------
(* Scaling transforms (transforms/variable_scaler.py, config/enopt/*: bounds,    *)
(* linear constraints, perturbation magnitudes; results/_constraint_info.py).    *)
(* Scales are positive rationals <<n, d>>, offsets integers, everything else      *)
(* rationals.  The optimizer sees y = (x - offset) / scale.                       *)
EXTENDS Util

QDiv(a, b) == Q(a[1] * b[2], a[2] * b[1])
ToOpt(x, s, o)   == QDiv(QSub(x, <<o, 1>>), s)
FromOpt(y, s, o) == QAdd(QMul(y, s), <<o, 1>>)
RoundTrip(x, s, o) == QEq(FromOpt(ToOpt(x, s, o), s, o), x)

\* bounds with INF sentinel on integers
INF == 1000000
IsInf(b) == b >= INF \/ b <= -INF
SatQ(v, lb, ub) == (IsInf(lb) \/ QLe(<<lb, 1>>, v)) /\ (IsInf(ub) \/ QLe(v, <<ub, 1>>))

\* a linear row  a.x in [l, u]  becomes  (a o s).y in [l - a.o, u - a.o], then is divided by max |a_i s_i|
RowUser(a, x) == QAdd(QMul(<<a[1], 1>>, x[1]), QMul(<<a[2], 1>>, x[2]))
RowOptCoef(a, s) == <<QMul(<<a[1], 1>>, s[1]), QMul(<<a[2], 1>>, s[2])>>
QAbs(q) == IF q[1] < 0 THEN QNeg(q) ELSE q
QMax(p, q) == IF QLe(p, q) THEN q ELSE p
EqScale(a, s) == QMax(QAbs(RowOptCoef(a, s)[1]), QAbs(RowOptCoef(a, s)[2]))
RowShift(a, o) == a[1] * o[1] + a[2] * o[2]
\* value of the transformed row at the optimizer-domain image of x, and its transformed bounds
RowOptValue(a, s, o, x) ==
  LET c == RowOptCoef(a, s)
      y == <<ToOpt(x[1], s[1], o[1]), ToOpt(x[2], s[2], o[2])>>
  IN QDiv(QAdd(QMul(c[1], y[1]), QMul(c[2], y[2])), EqScale(a, s))
RowOptBound(b, a, s, o) == QDiv(<<b - RowShift(a, o), 1>>, EqScale(a, s))
\* feasibility of the row is the same in both domains (TLC checks this)
RowEquivalent(a, l, u, s, o, x) ==
  SatQ(RowUser(a, x), l, u) <=>
    /\ (IsInf(l) \/ QLe(RowOptBound(l, a, s, o), RowOptValue(a, s, o, x)))
    /\ (IsInf(u) \/ QLe(RowOptValue(a, s, o, x), RowOptBound(u, a, s, o)))
\* differences mapped back to the user domain equal the user-domain differences
RowDiffBack(a, b, s, o, x) == QMul(QSub(RowOptValue(a, s, o, x), RowOptBound(b, a, s, o)), EqScale(a, s))
BoundDiffBack(x, b, s, o) == QMul(QSub(ToOpt(x, s, o), ToOpt(<<b, 1>>, s, o)), s)
=============================================================================
