------------------------------ MODULE Tracker ------------------------------
(* Result tracking (plugins/plan/_tracker.py, _utils.py).                     *)
(* An item of a FINISHED_EVALUATION event is                                   *)
(*   [id, kind |-> "F"|"G", hasfun, obj (user-domain rank, an integer),        *)
(*    nan (objective undefined), feas (every violation within the tolerance)]  *)
(* An event is [src |-> "tracked"|"tracked2"|"other", items |-> ...]: two      *)
(* tracked sources (steps) and one the tracker does not listen to.             *)
(* The optimizer minimises  Opt(obj) = obj (no transform / positive scale)     *)
(* or -obj (sign-flipping transform: the user maximises).                      *)
EXTENDS Util

Opt(obj, flip) == IF flip THEN -obj ELSE obj
Valid(it)      == it.kind = "F" /\ it.hasfun /\ it.feas /\ ~it.nan
Candidate(it)  == it.kind = "F" /\ it.hasfun /\ it.feas          \* 'last' may also hold an undefined objective

\* ---- implementation-shaped: fold the items of one event into the kept result
\* kept = [id, obj] with id = 0 for "nothing kept"
RECURSIVE BestFold(_, _, _, _)
BestFold(kept, items, i, flip) ==
  IF i > Len(items) THEN kept
  ELSE LET it == items[i] IN
       IF Valid(it) /\ (kept.id = 0 \/ Opt(it.obj, flip) < Opt(kept.obj, flip))
       THEN BestFold([id |-> it.id, obj |-> it.obj], items, i + 1, flip)
       ELSE BestFold(kept, items, i + 1, flip)
LastOf(kept, items) ==
  LET c == {i \in 1..Len(items) : Candidate(items[i])}
  IN IF c = {} THEN kept ELSE LET i == CHOOSE i \in c : \A j \in c : j <= i IN [id |-> items[i].id, obj |-> items[i].obj]
Update(what, kept, ev, flip) ==
  IF ev.src \notin {"tracked", "tracked2"} THEN kept
  ELSE IF what = "best" THEN BestFold(kept, ev.items, 1, flip) ELSE LastOf(kept, ev.items)

\* ---- declarative: over the whole history (a sequence of events)
AllItems(hist) == UNION {{hist[i].items[j] : j \in 1..Len(hist[i].items)} : i \in {k \in 1..Len(hist) : hist[k].src \in {"tracked", "tracked2"}}}
IsBest(keptId, hist, flip) ==
  LET V == {it \in AllItems(hist) : Valid(it)}
  IN IF V = {} THEN keptId = 0
     ELSE \E it \in V : it.id = keptId /\ \A o \in V : Opt(it.obj, flip) <= Opt(o.obj, flip)
\* position of an item in the history: ids grow along the history
IsLast(keptId, hist) ==
  LET C == {it \in AllItems(hist) : Candidate(it)}
      V == {it \in C : ~it.nan}
  IN IF C = {} THEN keptId = 0
     ELSE \/ \E it \in C : it.id = keptId /\ \A o \in C : o.id <= it.id          \* most recent feasible function result
          \/ \E it \in V : it.id = keptId /\ \A o \in V : o.id <= it.id          \* ... or the most recent with a defined objective
Holds(what, keptId, hist, flip) == IF what = "best" THEN IsBest(keptId, hist, flip) ELSE IsLast(keptId, hist)
=============================================================================
