CONSTANTS
  L = 2
  Pairs = TRUE
  Emit = TRUE
INIT Init
NEXT Next
INVARIANT InvHolds
INVARIANT InvEmit
CHECK_DEADLOCK FALSE
