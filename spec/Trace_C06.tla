----------------------------- MODULE Trace_C06 -----------------------------
(* Total trace validator for C06.  One trace = one EnsembleEvaluator object    *)
(* driven through a call sequence; events:                                      *)
(*   Call   - what the user evaluator was asked (labels, variables, active flags)*)
(*            and what ropt reported for that call (values per label, weights)   *)
(*   Owned  - did the evaluator's own arrays/objects change                      *)
(*   Pair   - result signatures of two runs differing only in inactive garbage   *)
(* The validator carries Evaluator!cache to know which request each call needs. *)
EXTENDS Evaluator, TLC, Json, IOUtils

Traces == JsonDeserialize(IOEnv.TRACE_FILE)
VARIABLES tid, l, verdict, cache

Scale == <<2, 4>>
Offset == <<1, -1>>
\* user-domain u must equal optimizer-domain o (a fraction) mapped by the scenario's transform
UserOf(o, v, tf) == IF tf THEN <<o.n * Scale[v] + Offset[v] * o.d, o.d>> ELSE <<o.n, o.d>>

CheckCall(e, c) ==
  LET R == e.R   P == e.P
      call == [k |-> e.k, pt |-> e.pt, batch |-> e.batch]
      need == Request(call, c, R, P)
      seen == [i \in 1..Len(e.labels) |-> <<e.labels[i][1], e.labels[i][2], e.labels[i][3]>>]
      n == Len(e.labels)
      inactive(f, r) == Len(e.active) > 0 /\ ~e.active[f][r]
      \* the scripted evaluator reverses the order of the realizations at point 2, so that filters select other members there
      RR(r) == IF e.pt = 2 THEN R + 1 - r ELSE r
  IN IF e.outcome = "toofew" THEN "ok"        \* legitimately ended (no positive weight left): nothing to judge
     ELSE IF e.outcome # "ok" THEN "internal_exception"
     ELSE IF e.ncalls # 1 THEN "not_one_evaluator_call"
     ELSE IF e.reqkind # need.kind THEN "wrong_request_kind"
     ELSE IF ~RowsExactlyOnce(seen, need.rows) THEN "rows_not_each_exactly_once"
     \* (point 3 is a non-dyadic neighbour of point 1, used for the request-kind clause only)
     ELSE IF e.pt # 3 /\ \E i \in 1..n : \E v \in 1..2 : ~(e.ovars[i][v].k = "q" /\ ObsEq(e.uvars[i][v], UserOf(e.ovars[i][v], v, e.tf)))
          THEN "row_variables_not_user_domain"
     ELSE IF ~e.batchok THEN "result_labelled_with_the_batch_of_another_call"
     \* (anti-vacuity: the harness must have recorded the reported values of this call)
     ELSE IF Len(e.values) = 0 THEN "harness_recorded_no_reported_values"
     \* every reported per-realization value is the one returned for the row with that label
     ELSE IF \E i \in 1..Len(e.values) : LET x == e.values[i] IN
               x.f > 0 /\ ~e.failedrow[x.r] /\ ~inactive(x.f, x.r) /\ ~ObsEqInt(x.val, Code(0, x.b, RR(x.r), x.p, x.f))
          THEN "reported_value_not_from_labelled_row"
     \* ... also when that value is "not a number": the evaluator failed realization nanreal (first objective, unperturbed rows)
     ELSE IF \E i \in 1..Len(e.values) : LET x == e.values[i] IN
               e.nanreal > 0 /\ x.r = e.nanreal /\ x.p = 0 /\ x.f = 1 /\ ~ObsNaN(x.val)
          THEN "failed_value_of_labelled_row_not_reported_as_failed"
     \* evaluation_info (function index 0) is routed by the same labels
     ELSE IF \E i \in 1..Len(e.values) : LET x == e.values[i] IN x.f = 0 /\ ~ObsEqInt(x.val, Code(0, x.b, RR(x.r), x.p, 0))
          THEN "evaluation_info_not_from_labelled_row"
     \* the per-realization summary flag (context.active): inactive iff every function of that realization is inactive
     ELSE IF Len(e.summary) > 0 /\ Len(e.active) > 0 /\ (\E r \in 1..R : e.summary[r] # (\E f \in 1..3 : e.active[f][r]))
          THEN "realization_summary_flag_differs_from_per_function_flags"
     ELSE IF (Len(e.summary) > 0) # (Len(e.active) > 0) THEN "realization_summary_flag_differs_from_per_function_flags"
     \* inactive only if the weight in force is zero
     ELSE IF \E f \in 1..3 : \E r \in 1..R : inactive(f, r) /\ ~e.weights[f][r].zero THEN "inactive_entry_has_weight"
     \* split gradient: every zero-weight entry is flagged inactive
     ELSE IF need.kind = "G" /\ (\E f \in 1..3 : \E r \in 1..R : e.weights[f][r].zero /\ ~inactive(f, r)) THEN "zero_weight_entry_not_inactive"
     ELSE "ok"

Check(e, c) ==
  CASE e.ev = "Call"  -> CheckCall(e, c)
    [] e.ev = "Owned" -> IF Len(e.mutated) = 0 THEN "ok" ELSE "evaluator_data_modified"
    [] e.ev = "Snap"  -> IF Len(e.changed) = 0 THEN "ok" ELSE "delivered_result_changed"
    [] e.ev = "Pair"  -> IF e.sigA = e.sigB THEN "ok" ELSE "inactive_entries_influence_result"
    [] e.ev = "Reset" -> "ok"
    [] OTHER -> "unknown_event"

Init == tid \in 1..Len(Traces) /\ l = 1 /\ verdict = "ok" /\ cache = 0
Next == /\ verdict = "ok" /\ l <= Len(Traces[tid])
        /\ LET e == Traces[tid][l] IN
             /\ verdict' = Check(e, cache)
             /\ cache' = IF e.ev = "Call" THEN CacheAfter([k |-> e.k, pt |-> e.pt, batch |-> e.batch], cache)
                         ELSE IF e.ev = "Reset" THEN 0 ELSE cache
        /\ l' = IF verdict' = "ok" THEN l + 1 ELSE l
        /\ UNCHANGED tid
Report == (verdict # "ok" \/ l = Len(Traces[tid]) + 1) =>
            PrintT(<<IF verdict = "ok" THEN "ACCEPT" ELSE "REJECT", tid, l, verdict>>)
=============================================================================
