CONSTANTS
  Family = "c02"
  RSet = {3}
  PSet = {4}
  MaskSet = {1, 2}
  DesSet = {1, 2, 3}
  SaltSet = {0}
  EstSet = {1, 2, 3}
  FltSet = {1, 3, 5, 6}
  WSet = {1, 2, 4}
  Emit = TRUE
INIT Init
NEXT Next
INVARIANT InvDerivative
INVARIANT InvFixedZero
INVARIANT InvContrib
INVARIANT InvFlags
INVARIANT InvEmit
CHECK_DEADLOCK FALSE
