------------------------------ MODULE MC_C16 ------------------------------
EXTENDS Repro, TLC, Json
CONSTANT Emit
Targets == Cardinality({i \in 1..Len(hist) : hist[i].op = "target"})
InvEmit == Len(hist) = L /\ Targets >= 2 /\ Emit => PrintT(ToJson([ops |-> hist]))
=============================================================================
