----------------------------- MODULE Trace_C13 -----------------------------
(* Total trace validator for C13: FunctionResults.constraint_info of an        *)
(* evaluator step on an integer problem (with or without dyadic transforms),   *)
(* and whether a 'last' tracker with tolerance tol + 1/2 accepted the result.  *)
EXTENDS ConstraintInfo, TLC, Json, IOUtils

Traces == JsonDeserialize(IOEnv.TRACE_FILE)
VARIABLES tid, l, verdict

\* values are carried in units of 1/U (the first variable may sit eps/U beside an integer)
U == 65536
BU(b) == IF IsInf(b) THEN b ELSE b * U
DiffU(vu, b) == IF b >= INF THEN [inf |-> -1, v |-> 0] ELSE IF b <= -INF THEN [inf |-> 1, v |-> 0] ELSE [inf |-> 0, v |-> vu - b * U]
ViolU(vu, lb, ub) == Max2(Max2(IF IsInf(lb) THEN 0 ELSE lb * U - vu, IF IsInf(ub) THEN 0 ELSE vu - ub * U), 0)
ObsExtU(o, d) == IF d.inf = 0 THEN ObsEq(o, <<d.v, U>>) ELSE o.k = "inf" /\ o.n = d.inf
GroupBad(g, vals, lb, ub, name) ==
  IF ~g.present THEN "ok"
  ELSE IF Len(g.lower) # 2 \/ Len(g.upper) # 2 \/ Len(g.viol) # 2 THEN name \o "_shape"
  ELSE IF \E i \in 1..2 : ~ObsExtU(g.lower[i], DiffU(vals[i], lb[i])) THEN name \o "_lower_difference"
  ELSE IF \E i \in 1..2 : ~ObsExtU(g.upper[i], DiffU(vals[i], ub[i])) THEN name \o "_upper_difference"
  ELSE IF \E i \in 1..2 : ~ObsEq(g.viol[i], <<ViolU(vals[i], lb[i], ub[i]), U>>) THEN name \o "_violation"
  ELSE "ok"

Check(e) ==
  LET x1  == e.v[1] * U + e.eps      x2 == e.v[2] * U           \* the variables, in units of 1/U
      xs  == <<x1, x2>>
      lin == <<2 * (x1 + x2), x1 - x2>>        \* rows (2, 2) and (1, -1)
      nl  == <<x1 + U, 2 * x2>>
      vlb == IF e.vfree THEN <<-INF, -INF>> ELSE e.lb          \* the variable bounds in force
      vub == IF e.vfree THEN <<INF, INF>> ELSE e.ub
      anyFinite == \E i \in 1..2 : ~IsInf(vlb[i]) \/ ~IsInf(vub[i])
      maxviol == Max2(Max2(Max2(ViolU(x1, vlb[1], vub[1]), ViolU(x2, vlb[2], vub[2])),
                           Max2(ViolU(lin[1], e.lb[1], e.ub[1]), ViolU(lin[2], e.lb[2], e.ub[2]))),
                      Max2(ViolU(nl[1], e.lb[1], e.ub[1]), ViolU(nl[2], e.lb[2], e.ub[2])))
      \* the tracker's tolerance: 0 when tol = 0, else tol + 1/2
      tolU == IF e.tol = 0 THEN 0 ELSE e.tol * U + U \div 2
  IN IF e.outcome # "ok" THEN "internal_exception"
     ELSE IF ~e.bound.present /\ anyFinite THEN "bound_differences_missing"
     ELSE IF ~e.linear.present THEN "linear_differences_missing"
     ELSE IF ~e.nonlinear.present THEN "nonlinear_differences_missing"
     ELSE IF GroupBad(e.bound, xs, vlb, vub, "bound") # "ok" THEN GroupBad(e.bound, xs, vlb, vub, "bound")
     ELSE IF GroupBad(e.linear, lin, e.lb, e.ub, "linear") # "ok" THEN GroupBad(e.linear, lin, e.lb, e.ub, "linear")
     ELSE IF GroupBad(e.nonlinear, nl, e.lb, e.ub, "nonlinear") # "ok" THEN GroupBad(e.nonlinear, nl, e.lb, e.ub, "nonlinear")
     ELSE IF e.tracked /\ e.kept # (maxviol <= tolU) THEN "feasibility_not_by_violation_within_tolerance"
     ELSE "ok"

Init == tid \in 1..Len(Traces) /\ l = 1 /\ verdict = "ok"
Next == /\ verdict = "ok" /\ l <= Len(Traces[tid])
        \* InfoShared: the same judgement for an evaluation made after the transform object served a LATER configuration
        /\ verdict' = IF Traces[tid][l].ev = "Info" THEN Check(Traces[tid][l])
                      ELSE IF Traces[tid][l].ev = "InfoShared"
                           THEN (IF Check(Traces[tid][l]) = "ok" THEN "ok"
                                 ELSE "transform_object_shared_with_a_later_configuration_" \o Check(Traces[tid][l]))
                      ELSE "unknown_event"
        /\ l' = IF verdict' = "ok" THEN l + 1 ELSE l
        /\ UNCHANGED tid
Report == (verdict # "ok" \/ l = Len(Traces[tid]) + 1) =>
            PrintT(<<IF verdict = "ok" THEN "ACCEPT" ELSE "REJECT", tid, l, verdict>>)
=============================================================================
