----------------------------- MODULE Trace_C13 -----------------------------
(* Total trace validator for C13: FunctionResults.constraint_info of an        *)
(* evaluator step on an integer problem (with or without dyadic transforms),   *)
(* and whether a 'last' tracker with tolerance tol + 1/2 accepted the result.  *)
EXTENDS ConstraintInfo, TLC, Json, IOUtils

Traces == JsonDeserialize(IOEnv.TRACE_FILE)
VARIABLES tid, l, verdict

GroupBad(g, vals, lb, ub, name) ==
  IF ~g.present THEN "ok"
  ELSE IF Len(g.lower) # 2 \/ Len(g.upper) # 2 \/ Len(g.viol) # 2 THEN name \o "_shape"
  ELSE IF \E i \in 1..2 : ~ObsExt(g.lower[i], LowerDiff(vals[i], lb[i])) THEN name \o "_lower_difference"
  ELSE IF \E i \in 1..2 : ~ObsExt(g.upper[i], UpperDiff(vals[i], ub[i])) THEN name \o "_upper_difference"
  ELSE IF \E i \in 1..2 : ~ObsEqInt(g.viol[i], Violation(vals[i], lb[i], ub[i])) THEN name \o "_violation"
  ELSE "ok"

Check(e) ==
  LET lin == <<2 * (e.v[1] + e.v[2]), e.v[1] - e.v[2]>>        \* rows (2, 2) and (1, -1)
      nl  == <<e.v[1] + 1, 2 * e.v[2]>>
      vlb == IF e.vfree THEN <<-INF, -INF>> ELSE e.lb          \* the variable bounds in force
      vub == IF e.vfree THEN <<INF, INF>> ELSE e.ub
      anyFinite == \E i \in 1..2 : ~IsInf(vlb[i]) \/ ~IsInf(vub[i])
      maxviol == Max2(Max2(Max2(Violation(e.v[1], vlb[1], vub[1]), Violation(e.v[2], vlb[2], vub[2])),
                           Max2(Violation(lin[1], e.lb[1], e.ub[1]), Violation(lin[2], e.lb[2], e.ub[2]))),
                      Max2(Violation(nl[1], e.lb[1], e.ub[1]), Violation(nl[2], e.lb[2], e.ub[2])))
  IN IF e.outcome # "ok" THEN "internal_exception"
     ELSE IF ~e.bound.present /\ anyFinite THEN "bound_differences_missing"
     ELSE IF ~e.linear.present THEN "linear_differences_missing"
     ELSE IF ~e.nonlinear.present THEN "nonlinear_differences_missing"
     ELSE IF GroupBad(e.bound, e.v, vlb, vub, "bound") # "ok" THEN GroupBad(e.bound, e.v, vlb, vub, "bound")
     ELSE IF GroupBad(e.linear, lin, e.lb, e.ub, "linear") # "ok" THEN GroupBad(e.linear, lin, e.lb, e.ub, "linear")
     ELSE IF GroupBad(e.nonlinear, nl, e.lb, e.ub, "nonlinear") # "ok" THEN GroupBad(e.nonlinear, nl, e.lb, e.ub, "nonlinear")
     ELSE IF e.tracked /\ e.kept # (maxviol <= e.tol) THEN "feasibility_not_by_violation_within_tolerance"
     ELSE "ok"

Init == tid \in 1..Len(Traces) /\ l = 1 /\ verdict = "ok"
Next == /\ verdict = "ok" /\ l <= Len(Traces[tid])
        /\ verdict' = Check(Traces[tid][l])
        /\ l' = IF verdict' = "ok" THEN l + 1 ELSE l
        /\ UNCHANGED tid
Report == (verdict # "ok" \/ l = Len(Traces[tid]) + 1) =>
            PrintT(<<IF verdict = "ok" THEN "ACCEPT" ELSE "REJECT", tid, l, verdict>>)
=============================================================================
