------------------------------ MODULE MC_C14 ------------------------------
EXTENDS OptStep, TLC, Json
CONSTANTS KSet, TfSet, Emit

Patterns(K) == {[i \in 1..K |-> "f"], [i \in 1..K |-> IF i = 1 THEN "f" ELSE "fg"], [i \in 1..K |-> "fg"],
                [i \in 1..K |-> IF i % 2 = 1 THEN "f" ELSE "g"], [i \in 1..K |-> "fb"]}
MCInit ==
  /\ \E kind \in {"opt", "eval"} : \E K \in KSet : \E reqs \in Patterns(K) : \E failAt \in 0..K :
     \E fclass \in {"thr", "filter", "est", "pert", "allnan", "exc", "estpert", "allnanpert"} : \E maxfun \in 0..(K + 1) : \E allownan \in BOOLEAN :
     \E flt \in {"none", "sort-objective", "sort-constraint", "cvar-objective", "cvar-constraint"} :
     \E est \in {"mean", "std"} : \E tf \in TfSet :
       /\ (kind = "eval" => K = 1 /\ reqs = <<"f">> /\ maxfun = 0 /\ ~allownan /\ fclass \notin {"pert", "estpert", "allnanpert"})
       /\ (reqs[1] = "fb" => kind = "opt" /\ fclass \in {"thr", "exc"} /\ flt = "none")
       /\ (failAt = 0 => fclass = "thr" /\ flt = "none" /\ est = "mean" /\ ~allownan)
       /\ (allownan => fclass \in {"allnan", "allnanpert"})
       /\ (fclass = "filter" => flt # "none") /\ (flt # "none" => fclass \in {"filter", "thr"})
       /\ (fclass \in {"est", "estpert"} <=> est = "std")
       /\ cfg = [kind |-> kind, reqs |-> reqs, failAt |-> failAt, fclass |-> fclass, maxfun |-> maxfun, allownan |-> allownan,
                 flt |-> flt, est |-> est, tf |-> tf]
  /\ k = 0 /\ completed = 0 /\ evals = 0 /\ delivered = <<>> /\ exit = "none" /\ phase = "next"
MCSpec == MCInit /\ [][ONext]_ovars
InvEmit == phase = "done" /\ Emit => PrintT(ToJson([cfg |-> cfg, exit |-> exit, delivered |-> delivered, completed |-> completed]))
=============================================================================
