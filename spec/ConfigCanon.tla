----------------------------- MODULE ConfigCanon -----------------------------
(* Canonical form of a validated configuration (config/enopt/*.py, utils.py). *)
(* A raw configuration is a record of small symbolic choices (see MC_C18);    *)
(* Canon maps it to the canonical projection or to "rejected".                *)
(* Bounds are integers, |b| >= INF infinite; magnitudes are rationals in      *)
(* units of 1/4 given as <<num, 4>>.                                          *)
EXTENDS Util

INF == 1000000
IsInf(b) == b >= INF \/ b <= -INF
P == 3                                   \* number of perturbations in every scenario

\* ---- raw values of the symbolic choices
RW(R, p) == CASE p = "ones" -> [r \in 1..R |-> 1] [] p = "seq" -> [r \in 1..R |-> r]
              [] p = "zeroend" -> [r \in 1..R |-> IF r = R THEN 0 ELSE 2] [] p = "allzero" -> [r \in 1..R |-> 0]
              [] p = "mixed" -> [r \in 1..R |-> IF r = 1 THEN 3 ELSE -1]              \* mixed signs, positive sum (R <= 3)
OW(p) == CASE p = "one" -> <<1>> [] p = "big" -> <<4>> [] p = "pair" -> <<1, 3>> [] p = "zero" -> <<0, 0>> [] p = "mixed" -> <<3, -1>>
           [] p = "near" -> <<65536, 65537>>      \* given as (1/2, 1/2 + 2^-17): sums to one only nearly
LB(V, b) == CASE b = "default" -> [v \in 1..V |-> -INF] [] b = "scalar" -> [v \in 1..V |-> -1]
              [] b = "vector" -> [v \in 1..V |-> v - 2] [] b = "mixinf" -> [v \in 1..V |-> IF v = 1 THEN -INF ELSE 0]
              [] b = "crossed" -> [v \in 1..V |-> 1] [] b = "badlen" -> [v \in 1..(V + 1) |-> -1]
              [] b = "crossfix" -> [v \in 1..V |-> IF v = Min2(2, V) THEN 1 ELSE -1]     \* crossed for one variable only (the one a vector mask fixes)
              [] b = "nested" -> [v \in 1..V |-> -1]
UB(V, b) == CASE b = "default" -> [v \in 1..V |-> INF] [] b = "scalar" -> [v \in 1..V |-> 2]
              [] b = "vector" -> [v \in 1..V |-> v + 1] [] b = "mixinf" -> [v \in 1..V |-> IF v = 2 THEN INF ELSE 3]
              [] b = "crossed" -> [v \in 1..V |-> 0] [] b = "badlen" -> [v \in 1..V |-> 2]
              [] b = "crossfix" -> [v \in 1..V |-> IF v = Min2(2, V) THEN 0 ELSE 2]
              [] b = "nested" -> [v \in 1..V |-> 2]
Mask(V, k) == CASE k = "none" -> <<>> [] k = "scalar" -> [v \in 1..V |-> TRUE]
                [] k = "vector" -> [v \in 1..V |-> v # 2] [] k = "badlen" -> [v \in 1..(V + 1) |-> TRUE]
Magn4(V, k) == CASE k = "scalar" -> [v \in 1..V |-> 1] [] k = "vector" -> [v \in 1..V |-> v] [] k = "badlen" -> [v \in 1..(V + 1) |-> 1]

Clamp(given, n) == IF given < 0 \/ given > n THEN n ELSE given        \* -1 stands for "not given"

\* ---- rejection
Rejected(c) ==
  \/ SumTo(RW(c.R, c.rwp), c.R) = 0
  \/ SumTo(OW(c.owp), Len(OW(c.owp))) = 0
  \/ c.bnd \in {"crossed", "badlen", "crossfix", "nested"}       \* nested: V values as a 1 x V / V x 1 matrix - not a vector
  \/ c.mask = "badlen" \/ c.magn = "badlen"
  \/ (c.ptype = "rel" /\ \E v \in 1..c.V : IsInf(LB(c.V, c.bnd)[v]) \/ IsInf(UB(c.V, c.bnd)[v]))
  \/ c.lin \in {"badcols", "crossed"} \/ c.nl = "crossed"

\* ---- canonical projection (only meaningful when ~Rejected(c))
Canon(c) ==
  LET V == c.V  R == c.R
      rw == RW(R, c.rwp)  ow == OW(c.owp)
      lb == LB(V, c.bnd)  ub == UB(V, c.bnd)
  IN [rw |-> [r \in 1..R |-> <<rw[r], SumTo(rw, R)>>],
      ow |-> [o \in 1..Len(ow) |-> <<ow[o], SumTo(ow, Len(ow))>>],
      rms |-> Clamp(c.rms, R), pms |-> IF c.pms < 0 \/ c.pms > P THEN P ELSE c.pms,
      lb |-> lb, ub |-> ub, mask |-> Mask(V, c.mask),
      \* magnitude in force: absolute value m/4, or the fraction m/4 of the bound range
      magn |-> [v \in 1..V |-> IF c.ptype = "abs" THEN <<Magn4(V, c.magn)[v], 4>>
                               ELSE <<Magn4(V, c.magn)[v] * (ub[v] - lb[v]), 4>>],
      nlin |-> CASE c.lin = "none" -> 0 [] OTHER -> 2,
      nnl |-> CASE c.nl = "none" -> 0 [] c.nl = "scalar" -> 1 [] OTHER -> 2]
\* ---- validation in the context of a variable transform  x_user = s_v * x_opt + o_v  (s_v = 2, 1/2, 4 for v = 1, 2, 3;
\* o_v = v): the stored configuration lives in the optimizer domain.  Bounds (b - o)/s; an absolute magnitude m becomes
\* m/s; a relative one is the fraction of the transformed range, m (ub - lb)/s.  Everything else as in Canon.
Scale(v) == CASE v = 1 -> <<2, 1>> [] v = 2 -> <<1, 2>> [] OTHER -> <<4, 1>>
Offset(v) == v
QDiv(a, b) == <<a[1] * b[2], a[2] * b[1]>>              \* b > 0
ScaledBound(b, v) == IF IsInf(b) THEN [inf |-> IF b > 0 THEN 1 ELSE -1, q |-> <<0, 1>>]
                     ELSE [inf |-> 0, q |-> QDiv(<<b - Offset(v), 1>>, Scale(v))]
ScaledCanon(c) ==
  LET x == Canon(c) IN
  [x EXCEPT !.lb = [v \in 1..c.V |-> ScaledBound(x.lb[v], v)], !.ub = [v \in 1..c.V |-> ScaledBound(x.ub[v], v)],
            !.magn = [v \in 1..c.V |-> QDiv(x.magn[v], Scale(v))]]
\* route independence (checked by TLC in MC_C18): transforming the canonical user-domain configuration gives the same
\* as canonicalising in the transformed domain - relative magnitudes computed from the transformed range
RelativeInTransformedRange(c) ==
  c.ptype = "rel" /\ ~Rejected(c) =>
    \A v \in 1..c.V : LET s == ScaledCanon(c) IN
       QEq(s.magn[v], QMul(<<Magn4(c.V, c.magn)[v], 4>>, QSub(s.ub[v].q, s.lb[v].q)))

\* the canonical weights sum to one and preserve the ratios (TLC checks this in MC_C18)
WeightsCanonical(w, raw) ==
  /\ QEq(<<SumTo([i \in DOMAIN w |-> w[i][1]], Len(w)), w[1][2]>>, <<1, 1>>)
  /\ \A i, j \in DOMAIN w : w[i][1] * raw[j] = w[j][1] * raw[i]
=============================================================================
