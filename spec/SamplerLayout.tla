---------------------------- MODULE SamplerLayout ----------------------------
(* Layout of perturbation samples (plugins/sampler/scipy.py).                  *)
(* A sampler draws N = (shared ? 1 : R) * P points of dimension D (the number  *)
(* of variables it handles) from an underlying sequence; point i, coordinate j *)
(* is identified with the pair <<i, j>>.  The result is an array               *)
(* Sample[r][p][v] over all V variables; entries of variables the sampler does *)
(* not handle are zero (0 stands for "exactly zero", <<i, j>> for coordinate j *)
(* of point i).                                                                *)
EXTENDS Util

Handled(mask) == {v \in 1..Len(mask) : mask[v]}
\* j-th handled variable (in increasing order)
Nth(mask, j) == CHOOSE v \in Handled(mask) : Cardinality({w \in Handled(mask) : w <= v}) = j
PosOf(mask, v) == Cardinality({w \in Handled(mask) : w <= v})

\* ---- intended layout: perturbation (r, p) is point (r-1)*P + p (shared: point p), coordinates in order
Layout(R, P, mask, shared) ==
  [r \in 1..R |-> [p \in 1..P |-> [v \in 1..Len(mask) |->
      IF mask[v] THEN <<(IF shared THEN 0 ELSE (r - 1) * P) + p, PosOf(mask, v)>> ELSE <<0, 0>>]]]

\* ---- as-is layout of the quasi-Monte-Carlo branch: scale(points).T.reshape((R', P, D)) where R' = shared ? 1 : R
AsIsLayout(R, P, mask, shared) ==
  LET D == Cardinality(Handled(mask))
      N == (IF shared THEN 1 ELSE R) * P
      flat(rr, p, j) == ((rr - 1) * P + (p - 1)) * D + (j - 1)          \* C-order index into the (D, N) transposed array
  IN [r \in 1..R |-> [p \in 1..P |-> [v \in 1..Len(mask) |->
        IF mask[v] THEN LET k == flat(IF shared THEN 1 ELSE r, p, PosOf(mask, v)) IN <<(k % N) + 1, (k \div N) + 1>>
        ELSE <<0, 0>>]]]

\* ---- the contract (C17)
ZeroOutside(S, mask) == \A r \in DOMAIN S : \A p \in DOMAIN S[r] : \A v \in 1..Len(mask) : ~mask[v] => S[r][p][v] = <<0, 0>>
\* every perturbation vector is ONE point of the sequence, its coordinates in order
PointIntegrity(S, mask) ==
  \A r \in DOMAIN S : \A p \in DOMAIN S[r] : \E i \in 1..(Len(S) * Len(S[r])) :
     \A v \in Handled(mask) : S[r][p][v] = <<i, PosOf(mask, v)>>
SharedIdentical(S) == \A r \in DOMAIN S : S[r] = S[1]
\* not shared: the (r, p) use pairwise different points
DistinctPoints(S, mask) ==
  \A r1, r2 \in DOMAIN S : \A p1, p2 \in DOMAIN S[r1] : \A v \in Handled(mask) :
     (<<r1, p1>> # <<r2, p2>>) => S[r1][p1][v][1] # S[r2][p2][v][1]
=============================================================================
