----------------------------- MODULE Trace_C10 -----------------------------
(* Total trace validator for C10: each event lists, per variable, the         *)
(* configuration (units of 1/4), the injected integer samples, and the        *)
(* perturbed values reported in GradientEvaluations and seen by the evaluator.*)
EXTENDS Bounds, TLC, Json, IOUtils

Traces == JsonDeserialize(IOEnv.TRACE_FILE)
VARIABLES tid, l, verdict

Exact4(o) == o.k = "q" /\ o.close /\ (4 * o.n) % o.d = 0
Val4(o)   == (4 * o.n) \div o.d

BadEntry(c, s, o) ==            \* c: variable config, s: sample, o: observed value
  LET m == Magnitude(c.ptype, c.mag, c.fnum, c.fden, c.lb, c.ub)
      raw == Raw(c.x, m, s)
  IN IF ~Exact4(o) THEN "perturbed_value_off_grid"
     ELSE IF Inside(raw, c.lb, c.ub) /\ Val4(o) # raw THEN "value_inside_bounds_altered"
     ELSE IF c.type = "none" /\ Val4(o) # raw THEN "boundary_type_none_altered"
     ELSE IF c.type = "truncate" /\ Val4(o) # Clip(raw, c.lb, c.ub) THEN "truncate_not_clipped"
     ELSE IF c.type # "none" /\ ~Inside(Val4(o), c.lb, c.ub) THEN "outside_bounds"
     ELSE IF ~Allowed(raw, c.lb, c.ub, c.type, Val4(o)) THEN "mirror_not_reflected"
     ELSE "ok"

Check(e) ==
  LET P == Len(e.samples)
      V == Len(e.vars)
      bad(arr) == {<<p, v>> \in (1..P) \X (1..V) : BadEntry(e.vars[v], e.samples[p][v], arr[p][v]) # "ok"}
  IN IF Len(e.pert) # P \/ Len(e.rows) # P THEN "shape"
     ELSE IF bad(e.pert) # {} THEN LET w == CHOOSE w \in bad(e.pert) : TRUE IN BadEntry(e.vars[w[2]], e.samples[w[1]][w[2]], e.pert[w[1]][w[2]])
     ELSE IF bad(e.rows) # {} THEN "evaluator_row_differs"
     ELSE "ok"

Init == tid \in 1..Len(Traces) /\ l = 1 /\ verdict = "ok"
Next == /\ verdict = "ok" /\ l <= Len(Traces[tid])
        /\ verdict' = IF Traces[tid][l].ev \notin {"Perturb"} THEN "unknown_event" ELSE Check(Traces[tid][l])
        /\ l' = IF verdict' = "ok" THEN l + 1 ELSE l
        /\ UNCHANGED tid
Report == (verdict # "ok" \/ l = Len(Traces[tid]) + 1) =>
            PrintT(<<IF verdict = "ok" THEN "ACCEPT" ELSE "REJECT", tid, l, verdict>>)
=============================================================================
