----------------------------- MODULE Ensemble -----------------------------
(* Function evaluation of an ensemble (ensemble_evaluator/_function.py,      *)
(* _ensemble_evaluator.py, function_estimator/default.py).                   *)
(*                                                                           *)
(* An ensemble has R realizations; a function column is an integer sequence  *)
(* v[1..R]; weights are integer "units" u[1..R] >= 0 (any positive common    *)
(* factor cancels in the normalisation).  F is the set of failed members.    *)
EXTENDS Filters

\* weights in force with failed members zeroed
Eff(u, F) == [r \in DOMAIN u |-> IF r \in F THEN 0 ELSE u[r]]
SumU(u)   == SumTo(u, Len(u))
NPos(u)   == Cardinality({r \in DOMAIN u : u[r] > 0})
Dot(u, v) == SumTo([r \in DOMAIN u |-> u[r] * v[r]], Len(u))
Dot2(u, v) == SumTo([r \in DOMAIN u |-> u[r] * v[r] * v[r]], Len(u))

\* weighted mean  sum(w^ v),  w^ = u / sum(u)
MeanQ(u, v) == <<Dot(u, v), SumU(u)>>
\* sample variance  N/(N-1) * sum(w^ (v - mu)^2),  N = number of positive weights
VarQ(u, v)  == LET W == SumU(u)
                   N == NPos(u)
               IN <<N * (W * Dot2(u, v) - Dot(u, v) * Dot(u, v)), (N - 1) * W * W>>

\* declarative variance: same thing written from the definition on the
\* multiset in which member r occurs u[r] times (TLC checks VarQ against it)
VarDef(u, v) == LET W == SumU(u)
                    N == NPos(u)
                    \* sum over r of u[r] * (W*v[r] - Dot(u,v))^2  /  (W^2 * W)
                    num == SumTo([r \in DOMAIN u |-> u[r] * (W * v[r] - Dot(u, v)) * (W * v[r] - Dot(u, v))], Len(u))
                IN <<N * num, (N - 1) * W * W * W>>

\* keep the members of S (in order): the ensemble "with the failed members removed"
RECURSIVE KeepFrom(_, _, _)
KeepFrom(s, S, i) == IF i > Len(s) THEN <<>>
                     ELSE IF i \in S THEN <<s[i]>> \o KeepFrom(s, S, i + 1) ELSE KeepFrom(s, S, i + 1)
Keep(s, S) == KeepFrom(s, S, 1)

\* ---- estimators: result record [st |-> "val"|"toofew"|"dontcare", q |-> <<n,d>>]
\* mean: value; std: VARIANCE (the harness squares the reported deviation)
Est(kind, u, v) ==
  IF SumU(u) = 0 THEN [st |-> "dontcare", q |-> <<0, 1>>]
  ELSE IF kind = "mean" THEN [st |-> "val", q |-> MeanQ(u, v)]
  ELSE IF NPos(u) < 2 THEN [st |-> "toofew", q |-> <<0, 1>>]
  ELSE [st |-> "val", q |-> VarQ(u, v)]

\* weighted objective: objective weights ow (integers), objective values as rationals
\* with a common denominator are not available in general: fold rationals.
RECURSIVE WSum(_, _, _)
WSum(ow, qs, i) == IF i = 0 THEN <<0, 1>> ELSE QAdd(QMul(<<ow[i], 1>>, qs[i]), WSum(ow, qs, i - 1))
WeightedObjective(ow, qs) == LET t == WSum(ow, qs, Len(ow)) IN <<t[1], t[2] * SumTo(ow, Len(ow))>>

\* ---- realization filters as records ---------------------------------------
\*   [kind |-> "sort", col, first, last]   sort filter keyed on column col
\*   [kind |-> "cvar", col, k, D]          CVaR filter keyed on column col (larger = worse)
\* cols[c] is the value sequence of column c over the realizations.  Returns integer
\* units and the grid denominator (observed weight = units / grid).
FilterUnits(flt, R, rw, cols, F) ==
  IF flt.kind = "sort"
  THEN LET sel == SortSupport(R, cols[flt.col], F, flt.first, flt.last)
       IN [r \in 1..R |-> IF r \in sel THEN rw[r] ELSE 0]
  ELSE CVaRImpl(R, cols[flt.col], F, flt.k, flt.D)
FilterGrid(flt, R, rw, F) ==
  IF flt.kind = "sort" THEN SumTo(rw, R) ELSE flt.D * Cardinality(Succ(R, F))

\* weights in force for a function mapped to filter index m (-1 = none)
UnitsInForce(m, filters, R, rw, cols, F) ==
  IF m = -1 THEN rw ELSE FilterUnits(filters[m + 1], R, rw, cols, F)
\* a used filter that leaves no positive weight ends the evaluation (TOO_FEW_REALIZATIONS)
FilterEmpty(flt, R, rw, cols, F) == \A r \in 1..R : FilterUnits(flt, R, rw, cols, F)[r] = 0

\* ======================= whole function evaluation =========================
\* Scenario record s: [R, rw, ow, est (3 functions: objective 0, objective 1, constraint 0),
\* flt (filter index per function), cols (value column per function), F, minsucc].
\* Standard filter pair used by the bounded instances and the drivers:
\* (filters 2 and 3 are the constraint flavours, keyed on the constraint column, which is upper-bounded: larger = worse)
StdFilters(R) == << [kind |-> "sort", col |-> 1, first |-> 0, last |-> IF R = 1 THEN 0 ELSE R - 2, k |-> 0, D |-> 1],
                 [kind |-> "cvar", col |-> 2, first |-> 0, last |-> 0, k |-> 1, D |-> 2],
                 [kind |-> "cvar", col |-> 3, first |-> 0, last |-> 0, k |-> 1, D |-> 2],
                 [kind |-> "sort", col |-> 3, first |-> 0, last |-> IF R = 1 THEN 0 ELSE R - 2, k |-> 0, D |-> 1] >>

\* objective filters rank the objective-weighted value of their key objective (columns 1, 2)
KeyCols(s) == [c \in 1..3 |-> IF c <= 2 THEN [r \in 1..s.R |-> s.ow[c] * s.cols[c][r]] ELSE s.cols[c]]

\* ---- the evaluation, implementation-shaped: flags -> filters -> gate -> estimators
Eval(s) ==
  LET R == s.R
      fl == StdFilters(R)
      used(j) == \E f \in 1..3 : s.flt[f] = j
      keys == KeyCols(s)
      unitsF == [f \in 1..3 |-> UnitsInForce(s.flt[f], fl, R, s.rw, keys, s.F)]
      units(f) == unitsF[f]
      resF == [f \in 1..3 |-> Est(s.est[f], Eff(unitsF[f], s.F), s.cols[f])]
      res(f) == resF[f]
  IN IF \E j \in {0, 1} : used(j) /\ FilterEmpty(fl[j + 1], R, s.rw, keys, s.F) THEN [st |-> "toofew"]
     ELSE IF R - Cardinality(s.F) < s.minsucc THEN [st |-> "nofunctions"]
     ELSE IF s.F = 1..R THEN [st |-> "allnan"]
     ELSE IF \E f \in 1..3 : res(f).st = "toofew" THEN [st |-> "toofew"]
     ELSE [st |-> "ok", res |-> [f \in 1..3 |-> res(f)], units |-> [f \in 1..3 |-> units(f)]]

\* ---- declaratively: the same ensemble with the failed members removed (C03)
Reduced(s) ==
  LET S == Succ(s.R, s.F)
      n == Cardinality(S)
      keepLast == IF n = 0 THEN 0 ELSE n
  IN [R |-> n, rw |-> Keep(s.rw, S), ow |-> s.ow, est |-> s.est, flt |-> s.flt,
      cols |-> [c \in 1..3 |-> Keep(s.cols[c], S)], F |-> {}, nancol |-> 1, minsucc |-> 0]
\* the reduced ensemble keeps the *original* filter parameters except that the sort window
\* is the original one (ranks are over successes only, so no change) - StdFilters(R) depends on
\* the original R, hence evaluate with the original filter records:
EvalReduced(s) ==
  LET r == Reduced(s)
      fl == StdFilters(s.R)
      units(f) == UnitsInForce(r.flt[f], fl, r.R, r.rw, KeyCols(r), {})
  IN [f \in 1..3 |-> Est(r.est[f], units(f), r.cols[f])]

SameRes(a, b) == a.st = b.st /\ (a.st = "val" => QEq(a.q, b.q))

\* ======================= gradient evaluation on affine ensembles ===========
\* Scenario record g: [V, mask, x, R, P, rw, ow, est, flt, a, b, minsucc, pms, merged, nanF, nanP]
\*   a[r][f][v] integer slope, b[r][f] offset: realization r of function f is a[r][f].x + b[r][f]
\*   nanF[r] in 0..3: column of the unperturbed evaluation of realization r carrying a NaN (0 = none)
\*   nanP[r][p] likewise for perturbation p of realization r
ColsAt(g, x) == [f \in 1..3 |-> [r \in 1..g.R |-> g.b[r][f] + SumTo([v \in 1..g.V |-> g.a[r][f][v] * x[v]], g.V)]]
FailedF(g)  == {r \in 1..g.R : g.nanF[r] # 0}
PertOK(g, r) == Cardinality({p \in 1..g.P : g.nanP[r][p] = 0})
FailedG(g)  == FailedF(g) \cup {r \in 1..g.R : PertOK(g, r) < g.pms}
FunScen(g)  == [R |-> g.R, rw |-> g.rw, ow |-> g.ow, est |-> g.est, flt |-> g.flt, cols |-> ColsAt(g, g.x),
                F |-> FailedF(g), minsucc |-> g.minsucc]

GradMeanQ(u, g, f, v) == <<SumTo([r \in 1..g.R |-> u[r] * g.a[r][f][v]], g.R), SumU(u)>>
\* standard deviation: (gradient * sigma) is rational:  N/(N-1) (sum w^ c a - mu sum w^ a)
GradStdSigmaQ(u, c, g, f, v) ==
  LET W == SumU(u)   N == NPos(u)
      Suca == SumTo([r \in 1..g.R |-> u[r] * c[r] * g.a[r][f][v]], g.R)
      Suc  == Dot(u, c)
      Sua  == SumTo([r \in 1..g.R |-> u[r] * g.a[r][f][v]], g.R)
  IN <<N * (W * Suca - Suc * Sua), (N - 1) * W * W>>

GradEst(kind, u, c, g, f, v) ==
  IF ~g.mask[v] THEN [st |-> "fixed", q |-> <<0, 1>>]
  ELSE IF SumU(u) = 0 THEN [st |-> "dontcare", q |-> <<0, 1>>]
  ELSE IF kind = "mean" THEN [st |-> "val", q |-> GradMeanQ(u, g, f, v)]
  ELSE IF NPos(u) < 2 THEN [st |-> "toofew", q |-> <<0, 1>>]
  ELSE [st |-> "val", q |-> GradStdSigmaQ(u, c, g, f, v)]

\* the whole call  calculate(x, functions + gradients)
GradEval(g) ==
  LET fs == FunScen(g)
      fe == Eval(fs)
      FG == FailedG(g)
      fl == StdFilters(g.R)
      keys == KeyCols(fs)
      unitsF == [f \in 1..3 |-> Eff(UnitsInForce(g.flt[f], fl, g.R, g.rw, keys, fs.F), FG)]
      geF == [f \in 1..3 |-> [v \in 1..g.V |-> GradEst(g.est[f], unitsF[f], fs.cols[f], g, f, v)]]
      ge(f, v) == geF[f][v]
  IN IF fe.st = "toofew" THEN [st |-> "toofew"]
     ELSE IF g.R - Cardinality(FG) < g.minsucc THEN [st |-> "nogradients", fe |-> fe]
     ELSE IF FG = 1..g.R THEN [st |-> "allnan", fe |-> fe]
     ELSE IF \E f \in 1..3 : \E v \in 1..g.V : ge(f, v).st = "toofew" THEN [st |-> "toofew"]
     ELSE [st |-> "ok", fe |-> fe, grad |-> geF,
           contrib |-> [f \in 1..3 |-> {r \in 1..g.R : unitsF[f][r] # 0}],
           units |-> unitsF]
=============================================================================
