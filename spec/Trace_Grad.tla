----------------------------- MODULE Trace_Grad -----------------------------
(* Total trace validator for gradient evaluations (C02, C03): each event      *)
(* carries the affine-ensemble scenario and what EnsembleEvaluator reported.  *)
EXTENDS FunCheck, TLC, Json, IOUtils

Traces == JsonDeserialize(IOEnv.TRACE_FILE)
VARIABLES tid, l, verdict

GScen(e) == [V |-> e.V, mask |-> e.mask, x |-> e.x, R |-> e.R, P |-> e.P, rw |-> e.rw, ow |-> e.ow, est |-> e.est,
             flt |-> e.flt, a |-> e.a, b |-> e.b, minsucc |-> e.minsucc, pms |-> e.pms, merged |-> e.merged,
             nanF |-> e.nanF, nanP |-> e.nanP]

CheckGrad(e) ==
  LET g == GScen(e)
      x == GradEval(g)
      V == g.V
      free == {v \in 1..V : g.mask[v]}
      \* may the value clause be applied to function f ?
      uniform(f) == \A r1, r2 \in x.contrib[f] : x.units[f][r1] = x.units[f][r2]
      judged(f) == IF e.merged
                   THEN \* identical realizations: judged for uniform weights (for other weights the recorded as-is deviation
                        \* has no closed form, see known finding C02-merged-weighted-solve); shared perturbations: always
                        (e.ident /\ e.spanningAll /\ uniform(f) /\ \A r \in x.contrib[f] : \A p \in 1..g.P : g.nanP[r][p] = 0)
                        \/ (e.shared /\ \A r \in x.contrib[f] : e.spanning[r] /\ \A p \in 1..g.P : g.nanP[r][p] = 0)
                   ELSE \A r \in x.contrib[f] : e.spanning[r]
      gq(f, v) == x.grad[f][v].q
      \* the recorded deviation of merged estimation: exact gradient divided by the number of contributing realizations
      scaledBy(f, v) == LET n == Cardinality(x.contrib[f]) IN <<gq(f, v)[1], gq(f, v)[2] * n>>
      \* observed for a standard deviation: the SQUARE of the gradient entry (rational), with its sign:
      \*   g = q / sigma,  g^2 = q^2 / Var,  q = sigma * g as in Ensemble!GradStdSigmaQ
      var(f) == VarQ(x.units[f], ColsAt(g, g.x)[f])
  IN IF e.outcome \notin {"ok", "toofew"} THEN "internal_exception"
     ELSE IF x.st = "toofew" THEN (IF e.outcome = "toofew" \/ e.gst = "nogradients" \/ e.fun.outcome = "nofunctions" THEN "ok" ELSE "too_few_not_signalled")
     ELSE IF e.outcome = "toofew" THEN "spurious_too_few"
     \* split mode: the function evaluation already reported too few realizations, no gradient was requested
     ELSE IF e.gst = "none" /\ e.mode = "split" /\ e.funverdict # "skip" /\ e.fun.outcome = "nofunctions" THEN CheckFun(e.fun)
     ELSE IF \E r \in 1..g.R : e.failedG[r] # (r \in FailedG(g)) THEN "gradient_failed_flags"
     ELSE IF e.funverdict # "skip" /\ CheckFun(e.fun) # "ok" THEN CheckFun(e.fun)
     ELSE IF x.st = "nogradients" THEN (IF e.gst = "nogradients" THEN "ok" ELSE "gradients_reported_below_min_success")
     ELSE IF x.st = "allnan" THEN "ok"
     ELSE IF e.gst # "ok" THEN "gradients_not_reported"
     ELSE IF \E f \in 1..3 : \E v \in (1..V) \ free : ~(e.grad[f][v].k = "q" /\ e.grad[f][v].zero) THEN "fixed_variable_gradient_nonzero"
     ELSE IF \E v \in (1..V) \ free : ~(e.wgrad[v].k = "q" /\ e.wgrad[v].zero) THEN "fixed_variable_gradient_nonzero"
     ELSE IF \E f \in 1..3 : judged(f) /\ g.est[f] = "mean" /\ \E v \in free : x.grad[f][v].st = "val" /\ ~ObsEq(e.grad[f][v], gq(f, v))
          THEN (IF ~e.merged THEN "mean_gradient_value"
                ELSE IF \A f \in 1..3 : (judged(f) /\ g.est[f] = "mean") => \A v \in free : x.grad[f][v].st = "val" => ObsEq(e.grad[f][v], scaledBy(f, v))
                     THEN "merged_gradient_divided_by_number_of_contributing_realizations"
                ELSE "merged_gradient_value")
     \* standard deviation: when function and gradient use the same realizations, gradient x reported deviation = q (small
     \* denominators); otherwise the square of the gradient entry = q^2 / Var over the gradient's own set
     ELSE IF \E f \in 1..3 : judged(f) /\ g.est[f] = "std" /\ var(f)[1] > 0 /\ \E v \in free : x.grad[f][v].st = "val" /\
               (IF FailedG(g) = FailedF(g) /\ e.gradsig[f][v].k = "q"
                THEN ~ObsEq(e.gradsig[f][v], gq(f, v))
                ELSE ~(/\ ObsEq(e.grad[f][v], <<gq(f, v)[1] * gq(f, v)[1] * var(f)[2], gq(f, v)[2] * gq(f, v)[2] * var(f)[1]>>)
                       /\ (gq(f, v)[1] # 0 => e.grad[f][v].neg = (gq(f, v)[1] < 0))))
          THEN "stddev_gradient_value"
     ELSE IF judged(1) /\ judged(2) /\ g.est[1] = "mean" /\ g.est[2] = "mean"
             /\ (\A v \in free : x.grad[1][v].st = "val" /\ x.grad[2][v].st = "val")
             /\ \E v \in free : ~ObsEq(e.wgrad[v], WeightedObjective(g.ow, <<gq(1, v), gq(2, v)>>))
          THEN "weighted_objective_gradient"
     ELSE "ok"

\* an optimizer step whose scripted back-end asks once for functions + gradients at the start point
CheckOptRun(e) ==
  LET g == GScen(e)
      x == GradEval(g)
      fe == Eval(FunScen(g))
      mustStop == x.st \in {"toofew", "nogradients"} \/ fe.st \in {"toofew", "nofunctions"}
      free == x.st = "allnan" \/ fe.st = "allnan"
  IN IF e.exit \notin {"toofew", "finished"} THEN "unexpected_exit_or_exception"
     ELSE IF free THEN "ok"
     ELSE IF mustStop /\ e.exit # "toofew" THEN "too_few_realizations_not_reported"
     ELSE IF ~mustStop /\ e.exit # "finished" THEN "spurious_too_few_realizations"
     ELSE "ok"

\* a function evaluation in which one successful realization returns an INFINITE first objective: a value, not a failure -
\* the failed flags are those of the NaN rows
CheckInfFlags(e) ==
  IF e.outcome \notin {"ok", "toofew"} \/ Len(e.failedObs) = 0 THEN "ok"        \* nothing was reported to judge
  ELSE IF Len(e.failedObs) # e.R THEN "failed_flags"
  ELSE IF \E r \in 1..e.R : e.failedObs[r] /\ e.nanF[r] = 0 THEN "infinite_value_flagged_as_failed"
  ELSE IF \E r \in 1..e.R : ~e.failedObs[r] /\ e.nanF[r] # 0 THEN "failed_flags"
  ELSE "ok"

Check(e) == IF e.ev = "OptRun" THEN CheckOptRun(e) ELSE IF e.ev = "InfFlags" THEN CheckInfFlags(e) ELSE CheckGrad(e)

Init == tid \in 1..Len(Traces) /\ l = 1 /\ verdict = "ok"
Next == /\ verdict = "ok" /\ l <= Len(Traces[tid])
        /\ verdict' = IF Traces[tid][l].ev \notin {"GradEval", "OptRun", "InfFlags"} THEN "unknown_event" ELSE Check(Traces[tid][l])
        /\ l' = IF verdict' = "ok" THEN l + 1 ELSE l
        /\ UNCHANGED tid
Report == (verdict # "ok" \/ l = Len(Traces[tid]) + 1) =>
            PrintT(<<IF verdict = "ok" THEN "ACCEPT" ELSE "REJECT", tid, l, verdict>>)
=============================================================================
