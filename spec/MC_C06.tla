------------------------------ MODULE MC_C06 ------------------------------
(* Bounded instance for C06: every sequence (length <= L) of evaluator-level *)
(* calls over two points, x ensemble shapes x weight vectors with zeros x     *)
(* filter configurations x transforms x memoising evaluators.                  *)
EXTENDS Evaluator, TLC, Json

CONSTANTS L, RSet, PSet, Emit
VARIABLES cfg, hist, cache, reqs

\* point 3 lies a few parts per million from point 1: a different point for the request machine
Calls == [k : {"F"}, pt : 1..2, batch : 1..2] \cup [k : {"G", "FG"}, pt : 1..2, batch : {1}] \cup [k : {"G"}, pt : {3}, batch : {1}]
\* (the last pattern has a negative weight: legal as long as the sum is positive, and certainly not "inactive")
RWs(R) == {[r \in 1..R |-> 1], [r \in 1..R |-> IF r = 1 THEN 0 ELSE r], [r \in 1..R |-> IF r = R THEN 0 ELSE 1]}
          \cup (IF R >= 2 THEN {[r \in 1..R |-> IF r = 2 THEN -1 ELSE 3]} ELSE {})

Init == /\ \E R \in RSet : \E P \in PSet : \E rw \in RWs(R) :
           \E filt \in {"none", "sortobj", "sortobj2", "sortobjcon", "cvarobj", "cononly", "conmixed"} : \E tf \in BOOLEAN : \E memo \in {"fresh", "arrays", "object", "roviews"} :
             cfg = [R |-> R, P |-> P, rw |-> rw, filt |-> filt, tf |-> tf, memo |-> memo]
        /\ hist = <<>> /\ cache = 0 /\ reqs = <<>>

Do(c) == /\ Len(hist) < L
         /\ (c.k = "F" /\ c.batch > 1 => c.pt = 1)
         /\ hist' = Append(hist, c)
         /\ reqs' = Append(reqs, Request(c, cache, cfg.R, cfg.P))
         /\ cache' = CacheAfter(c, cache)
         /\ UNCHANGED cfg
Next == \E c \in Calls : Do(c)

\* a gradient is never computed against function values of another point
InvGradNeedsFunctionsAtPoint ==
  \A i \in 1..Len(hist) : hist[i].k = "G" /\ reqs[i].kind = "G" =>
     \E j \in 1..(i - 1) : hist[j].k = "F" /\ hist[j].pt = hist[i].pt
                           /\ \A m \in (j + 1)..(i - 1) : hist[m].k = "G" /\ hist[m].pt = hist[i].pt
\* every request is complete: realizations x (batch | perturbations), nothing else
InvComplete == \A i \in 1..Len(reqs) :
  LET q == reqs[i] IN
    /\ (q.kind \in {"F"}  => q.rows = FunRows(hist[i].batch, cfg.R))
    /\ (q.kind = "G"      => q.rows = GradRows(cfg.R, cfg.P))
    /\ (q.kind = "FG"     => Cardinality(q.rows) = cfg.R * (cfg.P + 1))
InvEmit == Len(hist) = L /\ Emit => PrintT(ToJson([cfg |-> cfg, calls |-> hist, expect |-> [i \in 1..L |-> reqs[i].kind]]))
=============================================================================
