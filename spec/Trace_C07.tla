----------------------------- MODULE Trace_C07 -----------------------------
(* Total trace validator for C07.  One trace = one SciPy plug-in object driven *)
(* by a scripted client (or by a real SciPy algorithm).  Each "Req" event is   *)
(* one call of a callable handed to SciPy: the requested pool point, the pool  *)
(* point the returned value decodes to, the optimizer callbacks and evaluator  *)
(* calls it caused.  The monitor keeps, for the current run of callbacks at    *)
(* one point, what has already been evaluated there.                           *)
EXTENDS Util, TLC, Json, IOUtils

Traces == JsonDeserialize(IOEnv.TRACE_FILE)
VARIABLES tid, l, verdict, cur, doneF, doneG

\* fold the callbacks of one request through the monitor; returns <<cur, doneF, doneG, verdict>>
RECURSIVE Fold(_, _, _, _, _, _)
Fold(cbs, i, c, dF, dG, e) ==
  IF i > Len(cbs) THEN <<c, dF, dG, "ok">>
  ELSE LET cb == cbs[i]
           same == cb.pt = c
           dF0 == IF same THEN dF ELSE FALSE
           dG0 == IF same THEN dG ELSE FALSE
       IN IF cb.g /\ e.cls # "grad" THEN <<c, dF, dG, "gradient_evaluated_for_gradient_free_method">>
          ELSE IF cb.f /\ cb.g /\ e.split THEN <<c, dF, dG, "split_evaluations_combined_callback">>
          ELSE IF cb.f /\ dF0 THEN <<c, dF, dG, "functions_evaluated_twice_at_point">>
          ELSE IF cb.g /\ dG0 THEN <<c, dF, dG, "gradients_evaluated_twice_at_point">>
          ELSE Fold(cbs, i + 1, cb.pt, dF0 \/ cb.f, dG0 \/ cb.g, e)

\* a request at another point makes that point the current one, whether or not it causes a callback
CheckReq(e, c0, dF0, dG0) ==
  LET moved == e.reqpt # 0 /\ e.reqpt # c0
      c  == IF moved THEN e.reqpt ELSE c0
      dF == IF moved THEN FALSE ELSE dF0
      dG == IF moved THEN FALSE ELSE dG0
      r == Fold(e.cbs, 1, c, dF, dG, e) IN
  IF e.outcome = "stopped" THEN (IF r[4] # "ok" THEN r ELSE <<r[1], r[2], r[3], "ok">>)   \* budget/failure/abort ended the run inside this request
  ELSE IF e.outcome # "ok" THEN <<c, dF, dG, "internal_exception">>
  ELSE IF r[4] # "ok" THEN r
  ELSE IF \E i \in 1..Len(e.cbs) : \E p \in 1..Len(e.cbs[i].pts) : e.cbs[i].pts[p] \notin {e.xs[k] : k \in 1..Len(e.xs)} THEN <<c, dF, dG, "evaluation_at_unrequested_point">>
  ELSE IF e.split /\ (\E i \in 1..Len(e.evals) : e.evals[i].f /\ e.evals[i].g) THEN <<c, dF, dG, "split_evaluations_combined_evaluation">>
  ELSE IF e.cls # "grad" /\ (\E i \in 1..Len(e.evals) : e.evals[i].g) THEN <<c, dF, dG, "gradient_evaluated_for_gradient_free_method">>
  ELSE IF \E i \in 1..Len(e.ats) : e.ats[i] # -1 /\ e.ats[i] # e.xs[i] THEN <<c, dF, dG, "value_of_another_point_returned">>
  ELSE r

Init == tid \in 1..Len(Traces) /\ l = 1 /\ verdict = "ok" /\ cur = 0 /\ doneF = FALSE /\ doneG = FALSE
Next == /\ verdict = "ok" /\ l <= Len(Traces[tid])
        /\ LET e == Traces[tid][l] IN
           IF e.ev = "Req"
           THEN LET r == CheckReq(e, cur, doneF, doneG) IN
                  cur' = r[1] /\ doneF' = r[2] /\ doneG' = r[3] /\ verdict' = r[4]
           ELSE IF e.ev = "Reset" THEN cur' = 0 /\ doneF' = FALSE /\ doneG' = FALSE /\ verdict' = "ok"
           ELSE /\ UNCHANGED <<cur, doneF, doneG>>
                /\ verdict' = IF e.ev = "Pair" /\ e.sigA # e.sigB THEN "speculative_changes_returned_values" ELSE "ok"
        /\ l' = IF verdict' = "ok" THEN l + 1 ELSE l
        /\ UNCHANGED tid
Report == (verdict # "ok" \/ l = Len(Traces[tid]) + 1) =>
            PrintT(<<IF verdict = "ok" THEN "ACCEPT" ELSE "REJECT", tid, l, verdict>>)
=============================================================================
